package govc

// Parsing of contract files: every line that starts with `//@` (after optional blanks) in a
// *_contracts_verif.go file of /repo, or in a *.spec file of /verif/speclib, is contract text.

import (
	"fmt"
	"os"
	"regexp"
	"strconv"
	"strings"
)

type Clause struct {
	Label string
	E     *Expr
	Src   string
	Where string
}

type LoopSpec struct {
	Ord       int
	Invs      []Clause
	Decreases []*Expr
	// IterEnsures: postconditions of one loop iteration, checked at every back edge with old() = the
	// state at the loop header of that iteration.  An edge where a clause's names do not resolve is skipped.
	IterEnsures []Clause
}

// GhostAssign is `name = e` or `name[k] = e` on a ghost component.
type GhostAssign struct {
	Name  string
	Index *Expr
	Val   *Expr
	Where string
}

// AtSpec: inline assertions / ghost updates anchored at the calls whose callee expression reads Expr.
type AtSpec struct {
	Kind    string // "call"
	Expr    string
	Asserts []Clause
	Assumes []Clause
	Ghosts  []GhostAssign
	Where   string
	Used    bool
}

type FuncSpec struct {
	Kind     string // "func", "extern", "iface", "functype"
	Key      string
	Params   []string
	Results  []string
	Requires []Clause
	Ensures  []Clause
	Modifies []string
	ModAll   bool
	Loops    map[int]*LoopSpec
	Flags    map[string]string
	Where    string
	// Props: property ids this function's obligations are attributed to (tag `props C04 C05`)
	Props []string
	// Safety: property ids that the function's unlabelled safety obligations (nil, bounds, panics, channel
	// state, frame) are attributed to; defaults to Props
	Safety []string
	// Decreases for recursive functions
	Decreases []*Expr
	Ats       []*AtSpec
}

type FunDecl struct {
	Name   string
	Params []BoundVar
	Ret    string
	Body   *Expr // nil for uninterpreted
	Rec    bool  // recursive: axiom instead of define-fun
	Inline bool  // macro: expanded at the use site (may read heap and ghost state)
	Where  string
}

type GhostDecl struct {
	Name string
	Sort string
}

type AxiomDecl struct {
	Name  string
	E     *Expr
	Where string
}

type LemmaDecl struct {
	Name     string
	Params   []BoundVar
	Requires []Clause
	Ensures  []Clause
	// induction variable name (int): the hypothesis is the lemma at var-1
	Induct   string
	Where    string
	Props    []string
	Hints    []*Expr // instances of earlier lemmas to assume: name(args...)
	Triggers [][]*Expr
}

type ConstDecl struct {
	Name string
	Sort string
	Val  string
}

// ChanSpec: invariant on values travelling through channels whose Go type string matches Key.
type ChanSpec struct {
	Key    string
	Var    string
	Invs   []Clause // checked at send, assumed at receive
	Relys  []Clause // assumed at receive only (trusted)
	OnSend []GhostAssign
	OnRecv []GhostAssign
	Where  string
}

// DataCheck is an obligation on the literal value of a package-level table.
type DataCheck struct {
	Var   string
	Kind  string // "nonempty_entries", "no_entry_is_proper_prefix_of_a_later_entry"
	Props []string
	Where string
}

type Specs struct {
	Data    []*DataCheck
	Sorts   []string
	Funs    []*FunDecl
	FunIdx  map[string]*FunDecl
	Consts  map[string]*ConstDecl
	ConstL  []*ConstDecl
	Ghosts  []*GhostDecl
	GhostIx map[string]*GhostDecl
	Axioms  []*AxiomDecl
	Lemmas  []*LemmaDecl
	Funcs   map[string]*FuncSpec // key: kind + ":" + Key
	FuncL   []*FuncSpec
	Chans   []*ChanSpec
	Files   []string
}

func NewSpecs() *Specs {
	return &Specs{FunIdx: map[string]*FunDecl{}, Consts: map[string]*ConstDecl{}, GhostIx: map[string]*GhostDecl{}, Funcs: map[string]*FuncSpec{}}
}

var reSig = regexp.MustCompile(`^(\S.*?)\(([^()]*)\)\s*(?:\(([^()]*)\))?\s*$`)

func splitNames(s string) []string {
	var out []string
	for _, p := range strings.Split(s, ",") {
		p = strings.TrimSpace(p)
		if p != "" {
			out = append(out, p)
		}
	}
	return out
}

func parseParamsSorts(s string, where string) ([]BoundVar, error) {
	var out []BoundVar
	for _, p := range splitTop(s, ',') {
		p = strings.TrimSpace(p)
		if p == "" {
			continue
		}
		i := strings.IndexAny(p, " \t")
		if i < 0 {
			return nil, fmt.Errorf("%s: parameter %q needs a sort", where, p)
		}
		out = append(out, BoundVar{p[:i], strings.TrimSpace(p[i+1:])})
	}
	return out, nil
}

// splitTop splits s at sep occurring at bracket depth 0.
func splitTop(s string, sep byte) []string {
	var out []string
	depth := 0
	last := 0
	for i := 0; i < len(s); i++ {
		switch s[i] {
		case '(', '[':
			depth++
		case ')', ']':
			depth--
		default:
			if s[i] == sep && depth == 0 {
				out = append(out, s[last:i])
				last = i + 1
			}
		}
	}
	out = append(out, s[last:])
	return out
}

var topKeywords = map[string]bool{"sort": true, "fun": true, "def": true, "rec": true, "macro": true, "const": true, "ghost": true, "axiom": true,
	"lemma": true, "table": true, "func": true, "extern": true, "iface": true, "functype": true, "chantype": true}
var clauseKeywords = map[string]bool{"requires": true, "ensures": true, "modifies": true, "loop": true, "invariant": true,
	"decreases": true, "pure": true, "flag": true, "props": true, "safety": true, "induct": true, "inv": true,
	"at": true, "assert": true, "iter_ensures": true, "hint": true, "trigger": true, "ghostset": true, "rely": true, "onsend": true, "onrecv": true, "assume": true}

type rawItem struct {
	lines []string // logical lines, continuation merged
	where string
}

// ParseSpecFile reads contract text from a file (either `//@` comment lines or, for .spec files, all lines).
func (sp *Specs) ParseSpecFile(path string) error {
	data, err := os.ReadFile(path)
	if err != nil {
		return err
	}
	return sp.ParseSpecText(path, string(data), strings.HasSuffix(path, ".spec"))
}

func (sp *Specs) ParseSpecText(path, text string, raw bool) error {
	sp.Files = append(sp.Files, path)
	var logical []string
	var wheres []string
	for n, line := range strings.Split(text, "\n") {
		var body string
		if raw {
			body = line
			if i := strings.Index(body, "//#"); i >= 0 {
				body = body[:i]
			}
		} else {
			t := strings.TrimLeft(line, " \t")
			if !strings.HasPrefix(t, "//@") {
				continue
			}
			body = t[3:]
			if i := strings.Index(body, "//#"); i >= 0 {
				body = body[:i]
			}
		}
		trim := strings.TrimSpace(body)
		if trim == "" {
			continue
		}
		first := trim
		if i := strings.IndexAny(trim, " \t:("); i >= 0 {
			first = trim[:i]
		}
		if topKeywords[first] || clauseKeywords[first] {
			logical = append(logical, trim)
			wheres = append(wheres, fmt.Sprintf("%s:%d", path, n+1))
		} else {
			if len(logical) == 0 {
				return fmt.Errorf("%s:%d: continuation line without a clause: %q", path, n+1, trim)
			}
			logical[len(logical)-1] += " " + trim
		}
	}
	var curF *FuncSpec
	var curLoop *LoopSpec
	var curLemma *LemmaDecl
	var curChan *ChanSpec
	var curAt *AtSpec
	parseGhostAssign := func(s, where string) (GhostAssign, error) {
		ga := GhostAssign{Where: where}
		j := strings.Index(s, " = ")
		if j < 0 {
			return ga, fmt.Errorf("%s: ghost assignment needs ' = '", where)
		}
		lhs, rhs := strings.TrimSpace(s[:j]), strings.TrimSpace(s[j+3:])
		if k := strings.Index(lhs, "["); k >= 0 {
			if !strings.HasSuffix(lhs, "]") {
				return ga, fmt.Errorf("%s: bad ghost target %q", where, lhs)
			}
			ie, err := ParseExpr(lhs[k+1 : len(lhs)-1])
			if err != nil {
				return ga, fmt.Errorf("%s: %v", where, err)
			}
			ga.Index = ie
			lhs = lhs[:k]
		}
		ga.Name = lhs
		ve, err := ParseExpr(rhs)
		if err != nil {
			return ga, fmt.Errorf("%s: %v", where, err)
		}
		ga.Val = ve
		return ga, nil
	}
	for i, l := range logical {
		where := wheres[i]
		kw, rest := l, ""
		if j := strings.IndexAny(l, " \t"); j >= 0 {
			kw, rest = l[:j], strings.TrimSpace(l[j+1:])
		}
		kw = strings.TrimSuffix(kw, ":")
		parseClause := func(s string) (Clause, error) {
			c := Clause{Src: s, Where: where}
			// optional label "name:" (identifier followed by ':' but not '::' or ':=')
			if m := regexp.MustCompile(`^([A-Za-z_][A-Za-z0-9_.]*)\s*:([^:=].*)$`).FindStringSubmatch(s); m != nil {
				c.Label = m[1]
				s = strings.TrimSpace(m[2])
			}
			e, err := ParseExpr(s)
			if err != nil {
				return c, fmt.Errorf("%s: %v", where, err)
			}
			c.E = e
			return c, nil
		}
		switch kw {
		case "sort":
			sp.Sorts = append(sp.Sorts, rest)
			curF, curLemma, curChan = nil, nil, nil
		case "const":
			// const Name Sort [= value]
			parts := strings.Fields(strings.Replace(rest, "=", " = ", 1))
			if len(parts) < 2 {
				return fmt.Errorf("%s: bad const", where)
			}
			c := &ConstDecl{Name: parts[0], Sort: parts[1]}
			if len(parts) >= 4 && parts[2] == "=" {
				c.Val = parts[3]
			}
			sp.Consts[c.Name] = c
			sp.ConstL = append(sp.ConstL, c)
			curF, curLemma, curChan = nil, nil, nil
		case "ghost":
			parts := strings.Fields(rest)
			if len(parts) != 2 {
				return fmt.Errorf("%s: bad ghost declaration %q", where, rest)
			}
			g := &GhostDecl{parts[0], parts[1]}
			sp.Ghosts = append(sp.Ghosts, g)
			sp.GhostIx[g.Name] = g
			curF, curLemma, curChan = nil, nil, nil
		case "fun", "def", "rec", "macro":
			body := ""
			sig := rest
			if kw != "fun" {
				j := strings.Index(rest, " = ")
				if j < 0 {
					return fmt.Errorf("%s: %s needs a body", where, kw)
				}
				sig, body = rest[:j], strings.TrimSpace(rest[j+3:])
			}
			op := strings.Index(sig, "(")
			cl := matchParen(sig, op)
			if op < 0 || cl < 0 {
				return fmt.Errorf("%s: bad signature %q", where, sig)
			}
			ps, err := parseParamsSorts(sig[op+1:cl], where)
			if err != nil {
				return err
			}
			fd := &FunDecl{Name: strings.TrimSpace(sig[:op]), Params: ps, Ret: strings.TrimSpace(sig[cl+1:]), Rec: kw == "rec", Inline: kw == "macro", Where: where}
			if body != "" {
				e, err := ParseExpr(body)
				if err != nil {
					return fmt.Errorf("%s: %v", where, err)
				}
				fd.Body = e
			}
			if _, dup := sp.FunIdx[fd.Name]; dup {
				return fmt.Errorf("%s: duplicate function %s", where, fd.Name)
			}
			sp.Funs = append(sp.Funs, fd)
			sp.FunIdx[fd.Name] = fd
			curF, curLemma, curChan = nil, nil, nil
		case "axiom":
			c, err := parseClause(rest)
			if err != nil {
				return err
			}
			sp.Axioms = append(sp.Axioms, &AxiomDecl{Name: c.Label, E: c.E, Where: where})
			curF, curLemma, curChan = nil, nil, nil
		case "lemma":
			op := strings.Index(rest, "(")
			cl := matchParen(rest, op)
			if op < 0 || cl < 0 {
				return fmt.Errorf("%s: bad lemma signature", where)
			}
			ps, err := parseParamsSorts(rest[op+1:cl], where)
			if err != nil {
				return err
			}
			curLemma = &LemmaDecl{Name: strings.TrimSpace(rest[:op]), Params: ps, Where: where}
			sp.Lemmas = append(sp.Lemmas, curLemma)
			curF, curChan = nil, nil
		case "table":
			parts := strings.Fields(rest)
			if len(parts) < 2 {
				return fmt.Errorf("%s: table needs a variable and a check", where)
			}
			dc := &DataCheck{Var: parts[0], Kind: parts[1], Where: where}
			for _, p := range parts[2:] {
				dc.Props = append(dc.Props, p)
			}
			sp.Data = append(sp.Data, dc)
			curF, curLemma, curChan = nil, nil, nil
		case "chantype":
			// chantype "<go type>" (v)
			m := regexp.MustCompile(`^"([^"]+)"\s*\((\w+)\)$`).FindStringSubmatch(rest)
			if m == nil {
				return fmt.Errorf("%s: bad chantype %q", where, rest)
			}
			curChan = &ChanSpec{Key: m[1], Var: m[2], Where: where}
			sp.Chans = append(sp.Chans, curChan)
			curF, curLemma = nil, nil
		case "func", "extern", "iface", "functype":
			kind := kw
			if kw == "extern" {
				rest = strings.TrimSpace(strings.TrimPrefix(rest, "func"))
			}
			// signature: key(params) (results); key may itself contain parentheses: (*T).m
			op := strings.LastIndex(rest, "(")
			var results []string
			sig := rest
			if strings.HasSuffix(strings.TrimSpace(rest), ")") {
				// could be params only or params + results
				cl := len(strings.TrimRight(rest, " ")) - 1
				op = matchParenBack(rest, cl)
				before := strings.TrimSpace(rest[:op])
				if strings.HasSuffix(before, ")") && !isReceiverOnly(before) {
					// results present
					results = splitNames(rest[op+1 : cl])
					sig = before
				}
			}
			cl := len(sig) - 1
			op = matchParenBack(sig, cl)
			if op < 0 {
				return fmt.Errorf("%s: bad function signature %q", where, rest)
			}
			curF = &FuncSpec{Kind: kind, Key: strings.TrimSpace(sig[:op]), Params: splitNames(sig[op+1 : cl]), Results: results,
				Loops: map[int]*LoopSpec{}, Flags: map[string]string{}, Where: where}
			k := kind + ":" + curF.Key
			if kind == "extern" {
				k = "func:" + curF.Key
			}
			if _, dup := sp.Funcs[k]; dup {
				return fmt.Errorf("%s: duplicate contract for %s", where, k)
			}
			sp.Funcs[k] = curF
			sp.FuncL = append(sp.FuncL, curF)
			curLoop, curLemma, curChan, curAt = nil, nil, nil, nil
		case "requires", "ensures", "invariant", "inv":
			c, err := parseClause(rest)
			if err != nil {
				return err
			}
			switch {
			case curChan != nil && kw == "inv":
				curChan.Invs = append(curChan.Invs, c)
			case curLemma != nil && kw == "requires":
				curLemma.Requires = append(curLemma.Requires, c)
			case curLemma != nil && kw == "ensures":
				curLemma.Ensures = append(curLemma.Ensures, c)
			case curF == nil:
				return fmt.Errorf("%s: clause outside a function", where)
			case kw == "requires":
				curF.Requires = append(curF.Requires, c)
				curLoop = nil
			case kw == "ensures":
				curF.Ensures = append(curF.Ensures, c)
				curLoop = nil
			case kw == "invariant":
				if curLoop == nil {
					return fmt.Errorf("%s: invariant outside a loop", where)
				}
				curLoop.Invs = append(curLoop.Invs, c)
			}
		case "at":
			if curF == nil {
				return fmt.Errorf("%s: at outside function", where)
			}
			parts := strings.SplitN(strings.TrimSuffix(strings.TrimSpace(rest), ":"), " ", 2)
			if len(parts) != 2 || parts[0] != "call" {
				return fmt.Errorf("%s: expected `at call <callee expression>:`", where)
			}
			curAt = &AtSpec{Kind: "call", Expr: strings.TrimSpace(parts[1]), Where: where}
			curF.Ats = append(curF.Ats, curAt)
			curLoop = nil
		case "assert", "assume":
			if curAt == nil {
				return fmt.Errorf("%s: %s outside an at-block", where, kw)
			}
			c, err := parseClause(rest)
			if err != nil {
				return err
			}
			if kw == "assert" {
				curAt.Asserts = append(curAt.Asserts, c)
			} else {
				curAt.Assumes = append(curAt.Assumes, c)
			}
		case "ghostset":
			ga, err := parseGhostAssign(rest, where)
			if err != nil {
				return err
			}
			if curAt == nil {
				return fmt.Errorf("%s: ghostset outside an at-block", where)
			}
			curAt.Ghosts = append(curAt.Ghosts, ga)
		case "rely":
			if curChan == nil {
				return fmt.Errorf("%s: rely outside chantype", where)
			}
			c, err := parseClause(rest)
			if err != nil {
				return err
			}
			curChan.Relys = append(curChan.Relys, c)
		case "onsend", "onrecv":
			if curChan == nil {
				return fmt.Errorf("%s: %s outside chantype", where, kw)
			}
			ga, err := parseGhostAssign(rest, where)
			if err != nil {
				return err
			}
			if kw == "onsend" {
				curChan.OnSend = append(curChan.OnSend, ga)
			} else {
				curChan.OnRecv = append(curChan.OnRecv, ga)
			}
		case "iter_ensures":
			if curLoop == nil {
				return fmt.Errorf("%s: iter_ensures outside a loop", where)
			}
			c, err := parseClause(rest)
			if err != nil {
				return err
			}
			curLoop.IterEnsures = append(curLoop.IterEnsures, c)
		case "decreases":
			var es []*Expr
			for _, part := range splitTop(rest, ',') {
				e, err := ParseExpr(strings.TrimSpace(part))
				if err != nil {
					return fmt.Errorf("%s: %v", where, err)
				}
				es = append(es, e)
			}
			if curLoop != nil {
				curLoop.Decreases = es
			} else if curF != nil {
				curF.Decreases = es
			} else {
				return fmt.Errorf("%s: decreases outside function", where)
			}
		case "hint":
			if curLemma == nil {
				return fmt.Errorf("%s: hint outside lemma", where)
			}
			he, err := ParseExpr(rest)
			if err != nil || he.Op != "call" {
				return fmt.Errorf("%s: hint must be lemmaName(args...)", where)
			}
			curLemma.Hints = append(curLemma.Hints, he)
		case "trigger":
			if curLemma == nil {
				return fmt.Errorf("%s: trigger outside lemma", where)
			}
			var group []*Expr
			for _, part := range splitTop(rest, ',') {
				te, err := ParseExpr(strings.TrimSpace(part))
				if err != nil {
					return fmt.Errorf("%s: %v", where, err)
				}
				group = append(group, te)
			}
			curLemma.Triggers = append(curLemma.Triggers, group)
		case "induct":
			if curLemma == nil {
				return fmt.Errorf("%s: induct outside lemma", where)
			}
			curLemma.Induct = rest
		case "loop":
			if curF == nil {
				return fmt.Errorf("%s: loop outside function", where)
			}
			n, err := strconv.Atoi(strings.TrimSuffix(strings.TrimSpace(rest), ":"))
			if err != nil {
				return fmt.Errorf("%s: bad loop ordinal %q", where, rest)
			}
			curAt = nil
			curLoop = &LoopSpec{Ord: n}
			curF.Loops[n] = curLoop
		case "modifies":
			if curF == nil {
				return fmt.Errorf("%s: modifies outside function", where)
			}
			for _, m := range splitNames(rest) {
				if m == "*" {
					curF.ModAll = true
				} else {
					curF.Modifies = append(curF.Modifies, m)
				}
			}
		case "pure":
			if curF != nil {
				curF.Flags["pure"] = "1"
			}
		case "flag":
			if curF == nil {
				return fmt.Errorf("%s: flag outside function", where)
			}
			parts := strings.Fields(rest)
			v := "1"
			if len(parts) > 1 {
				v = strings.Join(parts[1:], " ")
			}
			curF.Flags[parts[0]] = v
		case "safety":
			if curF != nil {
				curF.Safety = append(curF.Safety, strings.Fields(rest)...)
			}
		case "props":
			if curF != nil {
				curF.Props = append(curF.Props, strings.Fields(rest)...)
			} else if curLemma != nil {
				curLemma.Props = append(curLemma.Props, strings.Fields(rest)...)
			}
		default:
			return fmt.Errorf("%s: unknown keyword %q", where, kw)
		}
	}
	return nil
}

func isReceiverOnly(s string) bool {
	// "(*T)" alone is not a signature with params; used to tell "(*T).m(a) (r)" from "(*T).m(a)"
	return false
}

func matchParen(s string, open int) int {
	if open < 0 {
		return -1
	}
	d := 0
	for i := open; i < len(s); i++ {
		switch s[i] {
		case '(':
			d++
		case ')':
			d--
			if d == 0 {
				return i
			}
		}
	}
	return -1
}

func matchParenBack(s string, cl int) int {
	d := 0
	for i := cl; i >= 0; i-- {
		switch s[i] {
		case ')':
			d++
		case '(':
			d--
			if d == 0 {
				return i
			}
		}
	}
	return -1
}

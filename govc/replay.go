package govc

import (
	"bytes"
	"context"
	"encoding/json"
	"fmt"
	"os"
	"os/exec"
	"path/filepath"
	"regexp"
	"strings"
	"time"
)

// A replay battery is an in-package Go test that exercises the real code along the scenario family
// of an obligation and evaluates the contract clause concretely.  It is injected with `go test -overlay`
// (nothing is written under /repo).  The test FAILS when the real code violates the clause.
type replayEntry struct {
	Match   string `json:"match"`   // regexp on the obligation's base name
	Dir     string `json:"dir"`     // package directory relative to /repo ("." for the root package)
	File    string `json:"file"`    // test file relative to /verif/replay
	Run     string `json:"run"`     // -run pattern
	Comment string `json:"comment"`
}

type replayer struct {
	name    string
	entry   replayEntry
	repoDir string
	verif   string
}

func replayFor(o *Obligation, repoDir, verifDir string) *replayer {
	var entries []replayEntry
	if err := readJSON(filepath.Join(verifDir, "replay", "registry.json"), &entries); err != nil {
		return nil
	}
	base := BaseName(o.Name)
	for _, e := range entries {
		re, err := regexp.Compile(e.Match)
		if err != nil {
			continue
		}
		if re.MatchString(base) {
			return &replayer{name: e.File + " -run " + e.Run, entry: e, repoDir: repoDir, verif: verifDir}
		}
	}
	return nil
}

type replayResult struct {
	out    string
	failed bool
	err    error
}

var replayCache = map[string]replayResult{}

func (r *replayer) run() (string, bool, error) {
	if c, ok := replayCache[r.name]; ok {
		return c.out, c.failed, c.err
	}
	out, failed, err := r.runOnce()
	replayCache[r.name] = replayResult{out, failed, err}
	return out, failed, err
}

func (r *replayer) runOnce() (string, bool, error) {
	tmp, err := os.MkdirTemp("", "govc-replay-")
	if err != nil {
		return "", false, err
	}
	defer os.RemoveAll(tmp)
	src := filepath.Join(r.verif, "replay", r.entry.File)
	dst := filepath.Join(r.repoDir, r.entry.Dir, "zz_govc_replay_test.go")
	ov := map[string]map[string]string{"Replace": {dst: src}}
	b, _ := json.Marshal(ov)
	ovFile := filepath.Join(tmp, "overlay.json")
	if err := os.WriteFile(ovFile, b, 0o644); err != nil {
		return "", false, err
	}
	ctx, cancel := context.WithTimeout(context.Background(), 120*time.Second)
	defer cancel()
	cmd := exec.CommandContext(ctx, "go", "test", "-overlay", ovFile, "-vet=off", "-count=1", "-timeout", "60s", "-run", r.entry.Run, "./"+r.entry.Dir)
	cmd.Dir = r.repoDir
	cmd.Env = append(os.Environ(), goEnv...)
	cmd.Env = append(cmd.Env, "GOCACHE="+filepath.Join(tmp, "gocache"))
	if gc := os.Getenv("GOCACHE"); gc != "" {
		cmd.Env = append(cmd.Env, "GOCACHE="+gc)
	}
	var buf bytes.Buffer
	cmd.Stdout = &buf
	cmd.Stderr = &buf
	runErr := cmd.Run()
	out := buf.String()
	if len(out) > 8000 {
		out = out[:8000] + "\n...[truncated]"
	}
	if strings.Contains(out, "[build failed]") || strings.Contains(out, "[setup failed]") {
		return out, false, fmt.Errorf("replay test did not build")
	}
	if runErr != nil {
		return out, true, nil
	}
	return out, false, nil
}

package govc

import (
	"bytes"
	"context"
	"encoding/json"
	"fmt"
	"os"
	"os/exec"
	"path/filepath"
	"regexp"
	"strings"
	"time"
)

// A replay battery is an in-package Go test that exercises the real code along the scenario family
// of an obligation and evaluates the contract clause concretely.  It is injected with `go test -overlay`
// (nothing is written under /repo).  The test FAILS when the real code violates the clause.
type replayEntry struct {
	Match   string   `json:"match"` // regexp on the obligation's base name
	Dir     string   `json:"dir"`   // package directory relative to /repo ("." for the root package)
	File    string   `json:"file"`  // test file relative to /verif/replay (or use Files)
	Files   []string `json:"files"` // glob patterns relative to /verif/replay: all matching files are injected together
	Run     string   `json:"run"`   // -run pattern
	Skip    string   `json:"skip"`  // -skip pattern (tests that fail on the unchanged tree for a listed known finding)
	Comment string   `json:"comment"`
}

type replayer struct {
	next    []*replayer
	name    string
	entry   replayEntry
	repoDir string
	verif   string
}

// replayFor returns the replay batteries registered for an obligation, most specific first, wrapped as one
// replayer that stops at the first battery that reproduces.
func replayFor(o *Obligation, repoDir, verifDir string) *replayer {
	var entries []replayEntry
	if err := readJSON(filepath.Join(verifDir, "replay", "registry.json"), &entries); err != nil {
		return nil
	}
	base := BaseName(o.Name)
	var chain []*replayer
	for _, e := range entries {
		re, err := regexp.Compile(e.Match)
		if err != nil {
			continue
		}
		if re.MatchString(base) {
			name := e.File
			if name == "" {
				name = strings.Join(e.Files, ",")
			}
			chain = append(chain, &replayer{name: name + " -run " + e.Run, entry: e, repoDir: repoDir, verif: verifDir})
		}
	}
	if len(chain) == 0 {
		return nil
	}
	chain[0].next = chain[1:]
	return chain[0]
}

type replayResult struct {
	out    string
	failed bool
	err    error
}

var replayCache = map[string]replayResult{}

func (r *replayer) run() (string, bool, error) {
	var outs []string
	var lastErr error
	for _, x := range append([]*replayer{r}, r.next...) {
		c, ok := replayCache[x.name]
		if !ok {
			out, failed, err := x.runOnce()
			c = replayResult{out, failed, err}
			replayCache[x.name] = c
		}
		outs = append(outs, "== battery "+x.name+"\n"+c.out)
		if c.err != nil {
			lastErr = c.err
			continue
		}
		if c.failed {
			return strings.Join(outs, "\n"), true, nil
		}
	}
	return strings.Join(outs, "\n"), false, lastErr
}

func (r *replayer) runOnce() (string, bool, error) {
	tmp, err := os.MkdirTemp("", "govc-replay-")
	if err != nil {
		return "", false, err
	}
	defer os.RemoveAll(tmp)
	rep := map[string]string{}
	var files []string
	if r.entry.File != "" {
		files = append(files, filepath.Join(r.verif, "replay", r.entry.File))
	}
	for _, g := range r.entry.Files {
		m, _ := filepath.Glob(filepath.Join(r.verif, "replay", g))
		files = append(files, m...)
	}
	for i, f := range files {
		rep[filepath.Join(r.repoDir, r.entry.Dir, fmt.Sprintf("zz_govc_replay_%d_test.go", i))] = f
	}
	ov := map[string]map[string]string{"Replace": rep}
	b, _ := json.Marshal(ov)
	ovFile := filepath.Join(tmp, "overlay.json")
	if err := os.WriteFile(ovFile, b, 0o644); err != nil {
		return "", false, err
	}
	ctx, cancel := context.WithTimeout(context.Background(), 150*time.Second)
	defer cancel()
	args := []string{"test", "-overlay", ovFile, "-vet=off", "-count=1", "-timeout", "90s", "-run", r.entry.Run}
	if r.entry.Skip != "" {
		args = append(args, "-skip", r.entry.Skip)
	}
	args = append(args, "./"+r.entry.Dir)
	cmd := exec.CommandContext(ctx, "go", args...)
	cmd.Dir = r.repoDir
	cmd.Env = append(os.Environ(), goEnv...)
	cmd.Env = append(cmd.Env, "GOCACHE="+filepath.Join(tmp, "gocache"))
	if gc := os.Getenv("GOCACHE"); gc != "" {
		cmd.Env = append(cmd.Env, "GOCACHE="+gc)
	}
	var buf bytes.Buffer
	cmd.Stdout = &buf
	cmd.Stderr = &buf
	runErr := cmd.Run()
	out := buf.String()
	if len(out) > 8000 {
		out = out[:8000] + "\n...[truncated]"
	}
	if strings.Contains(out, "[build failed]") || strings.Contains(out, "[setup failed]") {
		return out, false, fmt.Errorf("replay test did not build")
	}
	if runErr != nil {
		return out, true, nil
	}
	return out, false, nil
}

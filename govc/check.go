package govc

import (
	"encoding/json"
	"fmt"
	"os"
	"os/exec"
	"path/filepath"
	"regexp"
	"sort"
	"strings"
	"time"
)

// CheckCfg describes how one property is checked (from /verif/checks.json).
type CheckCfg struct {
	Pkgs       []string `json:"pkgs"`
	NotCovered []string `json:"clauses_not_covered"`
	Assumes    []string `json:"assumptions"`
	Replay     string   `json:"replay"` // name of the replay battery (optional)
}

type KnownFinding struct {
	Property   string `json:"property"`
	Obligation string `json:"obligation"` // obligation name without ordinal suffix
	Status     string `json:"status"`     // "known" or "fixed"
	Commit     string `json:"commit,omitempty"`
	What       string `json:"what"`
	Input      string `json:"failing_input,omitempty"`
}

type CheckResult struct {
	Property   string
	Tier       string
	Results    []*Result
	FuncVCs    []*FuncVC
	Violations []string
	Known      []string
	Notes      []string
	Errors     []string
	Wall       float64
}

var reOrd = regexp.MustCompile(`#[A-Za-z]*\d+`)

// BaseName strips the ordinals from an obligation name.
func BaseName(n string) string { return reOrd.ReplaceAllString(n, "") }

func hasProp(o *Obligation, p string) bool {
	for _, x := range o.Props {
		if x == p {
			return true
		}
	}
	return false
}

func readJSON(path string, v interface{}) error {
	b, err := os.ReadFile(path)
	if err != nil {
		return err
	}
	return json.Unmarshal(b, v)
}

// RunCheck runs the check of one property and returns the process exit code.
// mutantFile, when set, puts RunCheck into mutant mode: only the functions declared in that file are
// translated (a change inside a function can only break that function's own obligations), nothing is
// replayed and neither evidence nor replay files are written.
var mutantFile string

func RunCheck(verifDir, repoDir, prop, tier string, seed int, overlay map[string][]byte, relock bool) int {
	t0 := time.Now()
	var cfgs map[string]*CheckCfg
	if err := readJSON(filepath.Join(verifDir, "checks.json"), &cfgs); err != nil {
		fmt.Println("ERROR cannot read checks.json:", err)
		return 2
	}
	cfg := cfgs[prop]
	if cfg == nil {
		fmt.Printf("ERROR property %s has no check configured\n", prop)
		return 2
	}
	var known []KnownFinding
	_ = readJSON(filepath.Join(verifDir, "known_findings.json"), &known)
	lock := map[string][]string{}
	_ = readJSON(filepath.Join(verifDir, "obligations.lock.json"), &lock)

	eng, err := Load(repoDir, cfg.Pkgs, overlay, filepath.Join(verifDir, "speclib"))
	if err != nil {
		fmt.Println("ERROR loading /repo:", err)
		// a tree that does not build cannot be checked; this is an error of the run, not a violation
		return 2
	}
	timeout := 10
	if tier == "thorough" {
		timeout = 30
	}
	tmp, _ := os.MkdirTemp("", "govc-"+prop+"-")
	defer os.RemoveAll(tmp)

	cr := &CheckResult{Property: prop, Tier: tier}
	type job struct {
		vc  *FuncVC
		obl *Obligation
	}
	var jobs []job
	funcsUnder := []string{}
	abstracted := []string{}
	trusted := map[string]bool{}
	generated := map[string]bool{}
	var keys []string
	for _, sp := range eng.Specs.FuncL {
		if sp.Kind == "func" {
			keys = append(keys, sp.Key)
		}
	}
	sort.Strings(keys)
	anchorFail := map[string]string{}
	for _, key := range keys {
		sp := eng.Specs.Funcs["func:"+key]
		relevant := false
		for _, p := range append(append([]string{}, sp.Props...), sp.Safety...) {
			if p == prop {
				relevant = true
			}
		}
		if !relevant && !specMentionsProp(sp, prop) {
			continue
		}
		if sp.Flags["unproved"] != "" {
			trusted["unproved-callee:"+key] = true
			continue
		}
		if eng.LookupFunc(key) == nil {
			// assumed contract of a function outside the loaded packages, or a vanished function
			if inLoadedPkgs(eng, key) {
				anchorFail["anchor:"+key] = "function under contract not found"
			}
			continue
		}
		if fn := eng.Prog.Fset.Position(eng.LookupFunc(key).Pos()).Filename; mutantFile != "" && fn != "" && fn != mutantFile && eng.LookupFunc(key).Synthetic == "" {
			// (synthetic promoted-method wrappers have no position: they are always translated)
			continue
		}
		vc := eng.TranslateFunc(key)
		if vc.Err != nil {
			anchorFail["anchor:"+key] = vc.Err.Error()
			continue
		}
		n := 0
		for _, o := range vc.Obls {
			if !hasProp(o, prop) {
				continue
			}
			n++
			jobs = append(jobs, job{vc, o})
			if !o.Planted {
				generated[BaseName(o.Name)] = true
			}
		}
		if n > 0 {
			cr.FuncVCs = append(cr.FuncVCs, vc)
			funcsUnder = append(funcsUnder, key)
			for _, u := range vc.Unsupported {
				abstracted = append(abstracted, key+": "+u)
			}
			for _, t := range vc.Trusted {
				trusted[t] = true
			}
		}
	}
	// obligations on package-level tables (data), evaluated on the literal
	for _, dc := range eng.Specs.Data {
		rel := false
		for _, p := range dc.Props {
			if p == prop {
				rel = true
			}
		}
		if !rel || eng.homeOf(dc.Where) == nil {
			continue
		}
		name, ok, witness, err := eng.RunDataCheck(dc)
		if err != nil {
			anchorFail["anchor:table."+dc.Var] = err.Error()
			continue
		}
		o := &Obligation{Name: name, Func: "table " + dc.Var, Kind: "data", Label: dc.Kind, Guard: "true", Goal: "true", Props: dc.Props, Pos: dc.Where, Src: "table " + dc.Var + " " + dc.Kind}
		st := "unsat"
		if !ok {
			st = "sat"
		}
		cr.Results = append(cr.Results, &Result{Obl: o, Status: st, Solver: "literal-evaluation", Output: witness, Model: witness, Tried: []string{"literal-evaluation:" + st}})
		generated[BaseName(name)] = true
		funcsUnder = append(funcsUnder, "table "+dc.Var)
	}
	// lemmas attributed to this property
	for _, l := range eng.Specs.Lemmas {
		rel := false
		for _, p := range l.Props {
			if p == prop {
				rel = true
			}
		}
		if !rel || mutantFile != "" {
			continue
		}
		vc := eng.TranslateLemma(l)
		if vc.Err != nil {
			anchorFail["anchor:lemma."+l.Name] = vc.Err.Error()
			continue
		}
		cr.FuncVCs = append(cr.FuncVCs, vc)
		funcsUnder = append(funcsUnder, "lemma "+l.Name)
		for _, o := range vc.Obls {
			jobs = append(jobs, job{vc, o})
			generated[BaseName(o.Name)] = true
		}
	}
	// discharge, grouped per function (shared prelude)
	byVC := map[*FuncVC][]*Obligation{}
	var order []*FuncVC
	for _, j := range jobs {
		if _, ok := byVC[j.vc]; !ok {
			order = append(order, j.vc)
		}
		byVC[j.vc] = append(byVC[j.vc], j.obl)
	}
	for _, vc := range order {
		rs := Discharge(vc, byVC[vc], tmp, timeout, 16, tier == "thorough")
		cr.Results = append(cr.Results, rs...)
	}

	// classify
	knownFor := func(name string) *KnownFinding {
		for i := range known {
			k := &known[i]
			if k.Status == "known" && k.Property == prop && k.Obligation == BaseName(name) {
				return k
			}
		}
		return nil
	}
	replayDir := filepath.Join(verifDir, "replays", prop)
	if mutantFile != "" {
		replayDir = tmp
	}
	os.MkdirAll(replayDir, 0o755)
	nObl, nDis, nKnown := 0, 0, 0
	bySolver := map[string]int{}
	secsBySolver := map[string]float64{}
	var solverTime float64
	type slow struct {
		n string
		s float64
	}
	var slows []slow
	var samples []map[string]interface{}
	vacuousErr := []string{}
	plantedOK := 0
	seenKnown := map[string]bool{}
	for _, r := range cr.Results {
		solverTime += r.Seconds
		if r.Obl.Planted {
			if r.Status == "unsat" {
				vacuousErr = append(vacuousErr, r.Obl.Name)
			} else {
				plantedOK++
			}
			continue
		}
		slows = append(slows, slow{r.Obl.Name, r.Seconds})
		if r.Status == "unsat" {
			nObl++
			nDis++
			bySolver[r.Solver]++
			secsBySolver[r.Solver] += r.Seconds
			if len(samples) < 6 {
				samples = append(samples, map[string]interface{}{"obligation": r.Obl.Name, "kind": r.Obl.Kind, "source": r.Obl.Src, "at": r.Obl.Pos,
					"smt_bytes": r.Size, "answered_by": r.Solver, "seconds": r.Seconds})
			}
			continue
		}
		if k := knownFor(r.Obl.Name); k != nil {
			nKnown++
			if !seenKnown[k.Obligation] {
				seenKnown[k.Obligation] = true
				cr.Known = append(cr.Known, fmt.Sprintf("KNOWN-FINDING: property=%s %s: %s", prop, k.Obligation, k.What))
			}
			continue
		}
		nObl++
		locked := false
		for _, l := range lock[prop] {
			if l == BaseName(r.Obl.Name) {
				locked = true
			}
		}
		if mutantFile != "" {
			if locked || r.Status == "sat" || r.Status == "refuted" || r.Obl.Goal == "false" {
				cr.Violations = append(cr.Violations, fmt.Sprintf("%s (%s)", r.Obl.Name, r.Status))
			}
			continue
		}
		if !locked && r.Status != "sat" && r.Status != "refuted" && r.Obl.Goal != "false" {
			// new code without a discharged reference: only a reproduced replay makes it a violation
			reproduced := false
			if rp := replayFor(r.Obl, repoDir, verifDir); rp != nil {
				if _, failed, err := rp.run(); err == nil && failed {
					reproduced = true
				}
			}
			if !reproduced {
				cr.Notes = append(cr.Notes, fmt.Sprintf("NOTE unlocked-undecided %s (%s)", r.Obl.Name, r.Status))
				nObl--
				continue
			}
		}
		path := filepath.Join(replayDir, sanitize(r.Obl.Name)+".replay.txt")
		suffix := writeReplay(path, prop, r, repoDir, verifDir, cfg)
		cr.Violations = append(cr.Violations, fmt.Sprintf("VIOLATION property=%s replay=%s obligation=%s status=%s%s", prop, path, r.Obl.Name, r.Status, suffix))
	}
	var anchorNames []string
	for n := range anchorFail {
		anchorNames = append(anchorNames, n)
	}
	sort.Strings(anchorNames)
	for _, n := range anchorNames {
		path := filepath.Join(replayDir, sanitize(n)+".replay.txt")
		os.WriteFile(path, []byte(fmt.Sprintf("property: %s\nfailed obligation: %s\nreason: %s\nverdict: the contracted code could not be matched to its contract any more; no-failing-input-found\n", prop, n, anchorFail[n])), 0o644)
		cr.Violations = append(cr.Violations, fmt.Sprintf("VIOLATION property=%s replay=%s obligation=%s no-failing-input-found", prop, path, n))
		nObl++
	}
	// locked obligations that are no longer generated
	for _, l := range lock[prop] {
		if !generated[l] {
			fn := l
			if k := knownForBase(known, prop, l); k {
				continue
			}
			missingFn := false
			for n := range anchorFail {
				if strings.HasPrefix(l, strings.TrimPrefix(n, "anchor:")+".") {
					missingFn = true
				}
			}
			if missingFn {
				continue
			}
			// only labelled clauses are anchors; positional safety obligations may legitimately disappear
			if !isLabelled(l) {
				continue
			}
			if mutantFile != "" {
				// only the functions of the mutated file were translated
				mine := false
				for _, k := range funcsUnder {
					if strings.HasPrefix(l, k+".") {
						mine = true
					}
				}
				if !mine {
					continue
				}
			}
			path := filepath.Join(replayDir, sanitize("missing:"+fn)+".replay.txt")
			os.WriteFile(path, []byte(fmt.Sprintf("property: %s\nfailed obligation: anchor:%s\nreason: this obligation discharged on the reference tree and is no longer generated from /repo\nverdict: no-failing-input-found\n", prop, l)), 0o644)
			cr.Violations = append(cr.Violations, fmt.Sprintf("VIOLATION property=%s replay=%s obligation=anchor:%s no-failing-input-found", prop, path, l))
			nObl++
		}
	}
	if relock {
		discharged := map[string]bool{}
		failed := map[string]bool{}
		for _, r := range cr.Results {
			if r.Obl.Planted {
				continue
			}
			if r.Status == "unsat" {
				discharged[BaseName(r.Obl.Name)] = true
			} else {
				failed[BaseName(r.Obl.Name)] = true
			}
		}
		var names []string
		for n := range discharged {
			if failed[n] {
				continue
			}
			names = append(names, n)
		}
		sort.Strings(names)
		now := map[string]bool{}
		for _, n := range names {
			now[n] = true
		}
		for _, old := range lock[prop] {
			if !now[old] {
				fmt.Printf("RELOCK %s: dropped from the lock: %s\n", prop, old)
			}
		}
		lock[prop] = names
		b, _ := json.MarshalIndent(lock, "", " ")
		os.WriteFile(filepath.Join(verifDir, "obligations.lock.json"), b, 0o644)
		// the names of the locals of every function translated for this property, in declaration order: lets a
		// later run recognise a local that was merely renamed
		locals := map[string][]string{}
		_ = readJSON(filepath.Join(verifDir, "locals.lock.json"), &locals)
		for _, key := range funcsUnder {
			if fn := eng.LookupFunc(key); fn != nil {
				locals[key] = eng.LocalNames(fn)
			}
		}
		lb, _ := json.MarshalIndent(locals, "", " ")
		os.WriteFile(filepath.Join(verifDir, "locals.lock.json"), lb, 0o644)
	}
	sort.Slice(slows, func(i, j int) bool { return slows[i].s > slows[j].s })
	var slowest []string
	for i := 0; i < len(slows) && i < 5; i++ {
		slowest = append(slowest, fmt.Sprintf("%s %.2fs", slows[i].n, slows[i].s))
	}
	cr.Wall = time.Since(t0).Seconds()

	if mutantFile != "" {
		lastMutantFailures = cr.Violations
		if len(cr.Violations) > 0 {
			return 1
		}
		return 0
	}
	mutKilled, mutSurvived := []string{}, []string{}
	if tier == "thorough" && len(cr.Violations) == 0 && !relock && len(overlay) == 0 {
		k, sv := runMutants(verifDir, repoDir, prop, seed)
		mutKilled, mutSurvived = append(mutKilled, k...), append(mutSurvived, sv...)
		for _, m := range mutSurvived {
			cr.Notes = append(cr.Notes, "NOTE mutant survived (a hole in the contracts, not a violation of /repo): "+m)
		}
	}
	// output
	for _, k := range cr.Known {
		fmt.Println(k)
	}
	for _, n := range cr.Notes {
		fmt.Println(n)
	}
	for _, v := range cr.Violations {
		fmt.Println(v)
	}
	exit := 0
	if len(cr.Violations) > 0 {
		exit = 1
	}
	// refuted reachability probes: dead code that was reviewed on the reference tree is listed (as a count per
	// function and probe kind) in dead_probes.json; anything beyond that means contradictory assumptions
	deadBase := map[string]map[string]int{}
	_ = readJSON(filepath.Join(verifDir, "dead_probes.json"), &deadBase)
	refuted := map[string]map[string]int{}
	for _, v := range vacuousErr {
		fn, kind := probeKey(v)
		if refuted[fn] == nil {
			refuted[fn] = map[string]int{}
		}
		refuted[fn][kind]++
	}
	var deadNotes []string
	for fn, kinds := range refuted {
		for kind, n := range kinds {
			if kind != "requires" && n <= deadBase[fn][kind] {
				deadNotes = append(deadNotes, fmt.Sprintf("%s: %d unreachable %s probe(s), as reviewed", fn, n, kind))
				continue
			}
			if len(cr.Violations) > 0 {
				// changed code: unreachable parts are reported together with the violation, not as an error
				fmt.Printf("NOTE %d %s reachability probe(s) of %s were refuted (reviewed dead code: %d)\n", n, kind, fn, deadBase[fn][kind])
				continue
			}
			fmt.Printf("ERROR %d %s reachability probe(s) of %s were refuted (reviewed dead code: %d): contradictory contract assumptions\n", n, kind, fn, deadBase[fn][kind])
			exit = 2
		}
	}
	if nObl == 0 {
		fmt.Printf("ERROR no obligation was generated for %s\n", prop)
		exit = 2
	}
	var tb []string
	for t := range trusted {
		tb = append(tb, t)
	}
	tb = append(tb, "go/ssa translation of the source (x/tools v0.29.0)", "SMT solvers z3 5.1.0 / cvc5 1.0.3 / z3 4.8.12", "64-bit platform (int, uint, uintptr are 64 bits)",
		"govc encoding rules (DESIGN.md appendix A)")
	sort.Strings(tb)
	sort.Strings(abstracted)
	if len(samples) == 0 {
		samples = append(samples, map[string]interface{}{"note": "no obligation discharged on this run"})
	}
	ev := map[string]interface{}{
		"property_id": prop,
		"tier":        tier,
		"seed":        seed,
		"level":       "proof",
		"wall_s":      cr.Wall,
		"violations":  len(cr.Violations),
		"assumptions": append(append([]string{}, cfg.Assumes...), tb...),
		"coverage": map[string]interface{}{
			"obligations":                nObl,
			"discharged":                 nDis,
			"checker_cmd":                fmt.Sprintf("/verif/bin/govc check %s %s", prop, tier),
			"trusted_base":               tb,
			"functions_under_contract":   funcsUnder,
			"by_backend":                 bySolver,
			"by_backend_seconds":         secsBySolver,
			"solver_time_s":              solverTime,
			"slowest":                    slowest,
			"samples":                    samples,
			"vacuity_probes_not_refuted": plantedOK,
			"vacuity_probes_refuted":     vacuousErr,
			"dead_code_reviewed":         deadNotes,
			"abstracted":                 abstracted,
			"clauses_not_covered":        cfg.NotCovered,
			"known_finding_obligations":  nKnown,
			"known_findings_seen":        cr.Known,
			"unlocked_undecided":         cr.Notes,
			"locked_obligations":         len(lock[prop]),
			"per_obligation_timeout_s":   timeout,
			"mutants_killed":             mutKilled,
			"mutants_survived":           mutSurvived,
		},
	}
	b, _ := json.MarshalIndent(ev, "", " ")
	os.MkdirAll(filepath.Join(verifDir, "evidence"), 0o755)
	os.WriteFile(filepath.Join(verifDir, "evidence", prop+".json"), b, 0o644)
	fmt.Printf("%s %s: %d obligations, %d discharged, %d known-finding obligations, %d violations, %d functions, %.1fs\n", prop, tier, nObl, nDis, nKnown, len(cr.Violations), len(funcsUnder), cr.Wall)
	return exit
}

// probeKey splits a probe name into its function and kind (requires / return / backedge).
func probeKey(name string) (string, string) {
	i := strings.Index(name, ".vacuity.")
	if i < 0 {
		return name, "other"
	}
	rest := name[i+len(".vacuity."):]
	switch {
	case strings.HasPrefix(rest, "requires_sat"):
		return name[:i], "requires"
	case strings.HasPrefix(rest, "return_reachable"):
		return name[:i], "return"
	case strings.Contains(rest, "backedge_reachable"):
		return name[:i], "backedge"
	}
	return name[:i], "other"
}

func knownForBase(known []KnownFinding, prop, base string) bool {
	for _, k := range known {
		if k.Property == prop && k.Obligation == base && k.Status == "known" {
			return true
		}
	}
	return false
}

var reLabelled = regexp.MustCompile(`\.(ensures|inv|iter|pre|at)\.`)

// isLabelled says whether a locked obligation is an anchor: a clause of a contract whose disappearance means
// the contracted code could no longer be matched.  Preconditions at call sites count only when they carry a
// property label (Cxx_...): the preconditions of library functions (reflect_..., structtag_...) and unlabelled
// ones come and go with harmless refactorings (a removed or cached call).
func isLabelled(name string) bool {
	if m := rePreLabel.FindStringSubmatch(name); m != nil {
		return rePropLabelPre.MatchString(m[1])
	}
	return reLabelled.MatchString(name) || strings.Contains(name, ".loop") && strings.Contains(name, ".inv.")
}

var rePreLabel = regexp.MustCompile(`\.pre\.([A-Za-z0-9_]+)`)
var rePropLabelPre = regexp.MustCompile(`^(C\d\d_)+`)

func specMentionsProp(sp *FuncSpec, prop string) bool {
	has := func(l string) bool {
		return strings.HasPrefix(l, prop+"_") || strings.Contains(l, "_"+prop+"_")
	}
	for _, c := range sp.Requires {
		if has(c.Label) {
			return true
		}
	}
	for _, c := range sp.Ensures {
		if has(c.Label) {
			return true
		}
	}
	for _, l := range sp.Loops {
		for _, c := range l.Invs {
			if has(c.Label) {
				return true
			}
		}
		for _, c := range l.IterEnsures {
			if has(c.Label) {
				return true
			}
		}
	}
	for _, a := range sp.Ats {
		for _, c := range a.Asserts {
			if has(c.Label) {
				return true
			}
		}
	}
	return false
}

func inLoadedPkgs(e *Engine, key string) bool {
	i := strings.Index(key, ".")
	if i < 0 {
		return false
	}
	pn := key[:i]
	for _, p := range e.ModPkgs {
		if p.Name == pn {
			return true
		}
	}
	return false
}

// writeReplay writes the replay file of a failed obligation; returns the suffix for the VIOLATION line.
func writeReplay(path, prop string, r *Result, repoDir, verifDir string, cfg *CheckCfg) string {
	var sb strings.Builder
	fmt.Fprintf(&sb, "property: %s\nfailed obligation: %s\nkind: %s\nsource clause: %s\nat: %s\nsolver verdicts: %s\n", prop, r.Obl.Name, r.Obl.Kind, r.Obl.Src, r.Obl.Pos, strings.Join(r.Tried, ", "))
	suffix := ""
	replayed := false
	if rp := replayFor(r.Obl, repoDir, verifDir); rp != nil {
		out, failed, err := rp.run()
		fmt.Fprintf(&sb, "\n---- concrete replay against the real code (%s) ----\n%s\n", rp.name, out)
		if err != nil {
			fmt.Fprintf(&sb, "replay error: %v\n", err)
		} else if failed {
			fmt.Fprintf(&sb, "replay verdict: REPRODUCED on the real code\n")
			replayed = true
		} else {
			fmt.Fprintf(&sb, "replay verdict: not reproduced by the replay battery\n")
		}
	}
	if !replayed {
		suffix = " no-failing-input-found"
		fmt.Fprintf(&sb, "\nverdict: the obligation failed (%s); no-failing-input-found\n", r.Status)
	}
	fmt.Fprintf(&sb, "\n---- solver output (%s) ----\n", r.Solver)
	out := r.Output
	if len(out) > 20000 {
		out = out[:20000] + "\n...[truncated]"
	}
	sb.WriteString(out)
	os.WriteFile(path, []byte(sb.String()), 0o644)
	return suffix
}

var lastMutantFailures []string

type mutantEntry struct {
	ID    string   `json:"id"`
	File  string   `json:"file"`
	Props []string `json:"props"`
	What  string   `json:"what"`
}

// runMutants applies every entry of /verif/mutants/index.json that names the property to a scratch copy
// of its file (never to /repo), re-runs the property's obligations for the functions of that file through
// the loader's overlay and reports which mutants fail at least one obligation.
func runMutants(verifDir, repoDir, prop string, seed int) (killed, survived []string) {
	var idx []mutantEntry
	if err := readJSON(filepath.Join(verifDir, "mutants", "index.json"), &idx); err != nil {
		return nil, nil
	}
	tmp, _ := os.MkdirTemp("", "govc-mut-")
	defer os.RemoveAll(tmp)
	for _, m := range idx {
		rel := false
		for _, p := range m.Props {
			if p == prop {
				rel = true
			}
		}
		if !rel {
			continue
		}
		target := filepath.Join(repoDir, m.File)
		scratch := filepath.Join(tmp, "mut.go")
		src, err := os.ReadFile(target)
		if err != nil {
			continue
		}
		os.WriteFile(scratch, src, 0o644)
		diff, _ := os.ReadFile(filepath.Join(verifDir, "mutants", m.ID+".diff"))
		cmd := exec.Command("patch", "-s", "--fuzz=3", scratch)
		cmd.Stdin = strings.NewReader(string(diff))
		if out, err := cmd.CombinedOutput(); err != nil {
			survived = append(survived, m.ID+" (patch does not apply any more: "+strings.TrimSpace(string(out))+")")
			continue
		}
		mut, _ := os.ReadFile(scratch)
		mutantFile = target
		rc := RunCheck(verifDir, repoDir, prop, "quick", seed, map[string][]byte{target: mut}, false)
		mutantFile = ""
		switch {
		case rc == 1:
			first := ""
			if len(lastMutantFailures) > 0 {
				first = lastMutantFailures[0]
			}
			killed = append(killed, fmt.Sprintf("%s: %s", m.ID, first))
		case rc == 2:
			survived = append(survived, m.ID+" (mutant does not load)")
		default:
			survived = append(survived, m.ID)
		}
	}
	return killed, survived
}

// RunMutantsCmd runs the mutant corpus for one property and prints the outcome (development aid; the
// thorough tier does the same and records it in the evidence).
func RunMutantsCmd(verifDir, repoDir, prop string) int {
	k, s := runMutants(verifDir, repoDir, prop, 0)
	for _, m := range k {
		fmt.Println("killed  ", m)
	}
	for _, m := range s {
		fmt.Println("SURVIVED", m)
	}
	fmt.Printf("%s mutants: %d killed, %d survived\n", prop, len(k), len(s))
	return 0
}

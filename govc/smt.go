package govc

import (
	"fmt"
	"go/types"
	"sort"
	"strings"
)

type Sort = string

// Term is an SMT term with its sort and, where known, the Go type it denotes.
type Term struct {
	S    string
	Sort Sort
	T    types.Type
}

func (t Term) IsZero() bool { return t.S == "" }

func q(name string) string {
	name = strings.ReplaceAll(name, "|", "!")
	name = strings.ReplaceAll(name, "\\", "!")
	return "|" + name + "|"
}

func app(f string, args ...string) string {
	if len(args) == 0 {
		return f
	}
	return "(" + f + " " + strings.Join(args, " ") + ")"
}

func and(xs ...string) string {
	var ys []string
	for _, x := range xs {
		if x == "true" || x == "" {
			continue
		}
		ys = append(ys, x)
	}
	switch len(ys) {
	case 0:
		return "true"
	case 1:
		return ys[0]
	}
	return "(and " + strings.Join(ys, " ") + ")"
}

func or(xs ...string) string {
	var ys []string
	for _, x := range xs {
		if x == "false" || x == "" {
			continue
		}
		ys = append(ys, x)
	}
	switch len(ys) {
	case 0:
		return "false"
	case 1:
		return ys[0]
	}
	return "(or " + strings.Join(ys, " ") + ")"
}

func not(x string) string {
	if x == "true" {
		return "false"
	}
	if x == "false" {
		return "true"
	}
	return "(not " + x + ")"
}

func imp(a, b string) string {
	if a == "true" {
		return b
	}
	return "(=> " + a + " " + b + ")"
}

func intLit(n string) string {
	if strings.HasPrefix(n, "-") {
		return "(- " + n[1:] + ")"
	}
	return n
}

// structInfo describes the SMT datatype of a Go struct type used by value.
type structInfo struct {
	Name   string // canonical Go name, e.g. dials.sourceValue
	Sort   Sort   // SMT sort name
	Fields []structField
	ST     *types.Struct
}

type structField struct {
	Name string
	Sort Sort
	T    types.Type
}

// smtCtx accumulates declarations for one SMT problem (one function or one lemma).
type smtCtx struct {
	eng        *Engine
	home       *types.Package
	structs    map[string]*structInfo
	structL    []*structInfo
	declared   map[string]bool
	decls      []string // const / fun declarations in order
	axioms     []string // global assertions (prelude-level: speclib axioms, iface constructors, ...)
	tids       map[string]int
	tidTypes   map[string]types.Type
	tidNames   []string
	ifaceCtor  map[Sort]bool
	strLits    map[string]string
	usedFuns   map[string]bool
	usedSorts  map[string]bool
	trusted    map[string]bool // names of assumed contracts / axioms used
	fresh      int
	arraysorts map[string]bool
}

func newSmtCtx(e *Engine, home *types.Package) *smtCtx {
	return &smtCtx{eng: e, home: home, structs: map[string]*structInfo{}, declared: map[string]bool{}, tids: map[string]int{},
		ifaceCtor: map[Sort]bool{}, strLits: map[string]string{}, usedFuns: map[string]bool{}, usedSorts: map[string]bool{}, trusted: map[string]bool{}}
}

var baseSorts = map[string]bool{"Int": true, "Bool": true, "Ref": true, "Val": true, "RType": true, "Str": true, "Iface": true, "Float": true, "TVal": true, "Slice": true, "ArrVal": true}

// specSort translates a sort written in a contract (int, bool, Ref, map[Ref]int, *GoType...) into an
// SMT sort plus the Go type if it names one.
func (c *smtCtx) specSort(s string) (Sort, types.Type, error) {
	s = strings.TrimSpace(s)
	switch s {
	case "int", "Int":
		return "Int", nil, nil
	case "bool", "Bool":
		return "Bool", nil, nil
	case "Ref", "Val", "RType", "Str", "Iface", "Slice", "Float", "TVal":
		return s, nil, nil
	case "string":
		return "Str", types.Typ[types.String], nil
	}
	if strings.HasPrefix(s, "map[") {
		cl := matchBracket(s, 3)
		if cl < 0 {
			return "", nil, fmt.Errorf("bad map sort %q", s)
		}
		k, _, err := c.specSort(s[4:cl])
		if err != nil {
			return "", nil, err
		}
		v, _, err := c.specSort(s[cl+1:])
		if err != nil {
			return "", nil, err
		}
		return "(Array " + k + " " + v + ")", nil, nil
	}
	for _, us := range c.eng.Specs.Sorts {
		if us == s {
			c.usedSorts[s] = true
			return s, nil, nil
		}
	}
	if t := c.eng.LookupGoType(s, c.home); t != nil {
		return c.sortOf(t), t, nil
	}
	return "", nil, fmt.Errorf("unknown sort %q", s)
}

func matchBracket(s string, open int) int {
	d := 0
	for i := open; i < len(s); i++ {
		switch s[i] {
		case '[':
			d++
		case ']':
			d--
			if d == 0 {
				return i
			}
		}
	}
	return -1
}

func isNamed(t types.Type, pkg, name string) bool {
	n, ok := types.Unalias(t).(*types.Named)
	if !ok {
		return false
	}
	o := n.Obj()
	return o.Name() == name && o.Pkg() != nil && o.Pkg().Path() == pkg
}

// sortOf maps a Go type to its SMT sort.
func (c *smtCtx) sortOf(t types.Type) Sort {
	t = types.Unalias(t)
	switch u := t.(type) {
	case *types.Named:
		if isNamed(t, "reflect", "Value") {
			return "Val"
		}
		if isNamed(t, "reflect", "Type") {
			return "RType"
		}
		if _, ok := u.Underlying().(*types.Struct); ok {
			return c.structSort(t).Sort
		}
		return c.sortOf(u.Underlying())
	case *types.TypeParam:
		if _, _, ok := intTypeParam(u); ok {
			return "Int"
		}
		if ct := coreTypeOf(u); ct != nil {
			return c.sortOf(ct)
		}
		return "TVal"
	case *types.Basic:
		switch {
		case u.Info()&types.IsInteger != 0:
			return "Int"
		case u.Info()&types.IsBoolean != 0:
			return "Bool"
		case u.Info()&types.IsString != 0:
			return "Str"
		case u.Info()&(types.IsFloat|types.IsComplex) != 0:
			return "Float"
		case u.Kind() == types.UnsafePointer:
			return "Ref"
		case u.Kind() == types.UntypedNil:
			return "Ref"
		}
		return "TVal"
	case *types.Pointer, *types.Chan, *types.Map, *types.Signature:
		return "Ref"
	case *types.Interface:
		return "Iface"
	case *types.Slice:
		return "Slice"
	case *types.Struct:
		return c.structSort(t).Sort
	case *types.Array:
		return "ArrVal"
	case *types.Tuple:
		return "Tuple"
	}
	return "TVal"
}

func structCanon(t types.Type) string {
	t = types.Unalias(t)
	if n, ok := t.(*types.Named); ok {
		o := n.Origin().Obj()
		if o.Pkg() != nil {
			return o.Pkg().Name() + "." + o.Name()
		}
		return o.Name()
	}
	return "anon{" + TypeString(t) + "}"
}

func (c *smtCtx) structSort(t types.Type) *structInfo {
	name := structCanon(t)
	if si, ok := c.structs[name]; ok {
		return si
	}
	tt := types.Unalias(t)
	if n, ok := tt.(*types.Named); ok {
		tt = n.Origin()
	}
	st := tt.Underlying().(*types.Struct)
	si := &structInfo{Name: name, Sort: q("S:" + name), ST: st}
	c.structs[name] = si
	for i := 0; i < st.NumFields(); i++ {
		f := st.Field(i)
		fname := f.Name()
		if fname == "_" {
			fname = fmt.Sprintf("_%d", i)
		}
		si.Fields = append(si.Fields, structField{Name: fname, Sort: c.sortOf(f.Type()), T: f.Type()})
	}
	c.structL = append(c.structL, si) // appended after its dependencies (sortOf recursion above)
	return si
}

func (si *structInfo) ctor() string        { return q("mk:" + si.Name) }
func (si *structInfo) acc(f string) string { return q(si.Name + "." + f) }
func (si *structInfo) field(name string) (int, *structField) {
	for i := range si.Fields {
		if si.Fields[i].Name == name {
			return i, &si.Fields[i]
		}
	}
	return -1, nil
}

func (c *smtCtx) declConst(name string, s Sort) string {
	qn := q(name)
	if !c.declared[qn] {
		c.declared[qn] = true
		c.decls = append(c.decls, fmt.Sprintf("(declare-const %s %s)", qn, s))
	}
	return qn
}

func (c *smtCtx) declFun(name string, args []Sort, ret Sort) string {
	qn := q(name)
	if !c.declared[qn] {
		c.declared[qn] = true
		c.decls = append(c.decls, fmt.Sprintf("(declare-fun %s (%s) %s)", qn, strings.Join(args, " "), ret))
	}
	return qn
}

func (c *smtCtx) freshName(prefix string) string {
	c.fresh++
	return fmt.Sprintf("%s!%d", prefix, c.fresh)
}

func (c *smtCtx) freshConst(prefix string, s Sort) string {
	return c.declConst(c.freshName(prefix), s)
}

// tid returns the integer id of a dynamic type.
func (c *smtCtx) tid(t types.Type) string {
	name := TypeString(t)
	if c.tidTypes == nil {
		c.tidTypes = map[string]types.Type{}
	}
	if _, ok := c.tidTypes[name]; !ok {
		c.tidTypes[name] = t
	}
	return c.tidByName(name)
}

var reflectKindOfBasic = map[types.BasicKind]int{types.Bool: 1, types.Int: 2, types.Int8: 3, types.Int16: 4, types.Int32: 5, types.Int64: 6,
	types.Uint: 7, types.Uint8: 8, types.Uint16: 9, types.Uint32: 10, types.Uint64: 11, types.Uintptr: 12, types.Float32: 13, types.Float64: 14,
	types.Complex64: 15, types.Complex128: 16, types.String: 24, types.UnsafePointer: 26}

// reflectKind gives the reflect.Kind number of a Go type (0 if it depends on a type parameter).
func reflectKind(t types.Type) int {
	switch u := types.Unalias(t).Underlying().(type) {
	case *types.Basic:
		return reflectKindOfBasic[u.Kind()]
	case *types.Array:
		return 17
	case *types.Chan:
		return 18
	case *types.Signature:
		return 19
	case *types.Interface:
		if _, isTP := types.Unalias(t).(*types.TypeParam); isTP {
			return 0
		}
		return 20
	case *types.Map:
		return 21
	case *types.Pointer:
		return 22
	case *types.Slice:
		return 23
	case *types.Struct:
		return 25
	}
	return 0
}

// tidFacts renders what reflect reports about the concrete dynamic types that occur in this VC.
func (c *smtCtx) tidFacts() []string {
	var out []string
	done := map[string]bool{}
	var names []string
	for n := range c.tidTypes {
		names = append(names, n)
	}
	sort.Strings(names)
	var visit func(t types.Type)
	visit = func(t types.Type) {
		name := TypeString(t)
		if done[name] {
			return
		}
		done[name] = true
		id := c.tid(t)
		ty := app(q("f:typeOfDyn"), id)
		if k := reflectKind(t); k != 0 {
			out = append(out, app("=", app(q("f:kind"), ty), fmt.Sprint(k)))
		}
		var el types.Type
		switch u := types.Unalias(t).Underlying().(type) {
		case *types.Pointer:
			el = u.Elem()
		case *types.Slice:
			el = u.Elem()
		case *types.Array:
			el = u.Elem()
		case *types.Chan:
			el = u.Elem()
		case *types.Map:
			el = u.Elem()
		}
		if el != nil {
			if _, isTP := types.Unalias(el).(*types.TypeParam); !isTP {
				visit(el)
				out = append(out, app("=", app(q("f:elem"), ty), app(q("f:typeOfDyn"), c.tid(el))))
			}
		}
	}
	for _, n := range names {
		visit(c.tidTypes[n])
	}
	return out
}

func (c *smtCtx) tidByName(name string) string {
	if id, ok := c.tids[name]; ok {
		return fmt.Sprint(id)
	}
	id := len(c.tids) + 1
	c.tids[name] = id
	c.tidNames = append(c.tidNames, name)
	return fmt.Sprint(id)
}

// mkIface boxes v (of Go type t) into an interface value.
func (c *smtCtx) mkIface(t types.Type, v Term) string {
	c.ifaceCtor[v.Sort] = true
	return app(q("mki:"+v.Sort), c.tid(t), v.S)
}

func (c *smtCtx) payload(s Sort, x string) string {
	c.ifaceCtor[s] = true
	return app(q("pay:"+s), x)
}

func (c *smtCtx) implPred(iface types.Type) string {
	return c.declFun("impl:"+TypeString(iface), []Sort{"Int"}, "Bool")
}

func (c *smtCtx) strLit(s string) string {
	if n, ok := c.strLits[s]; ok {
		return n
	}
	n := q(fmt.Sprintf("str:%q", s))
	c.strLits[s] = n
	return n
}

// zero value of a Go type
func (c *smtCtx) zero(t types.Type) Term {
	s := c.sortOf(t)
	return Term{c.zeroOfSort(s, t), s, t}
}

func (c *smtCtx) zeroOfSort(s Sort, t types.Type) string {
	switch s {
	case "Int":
		return "0"
	case "Bool":
		return "false"
	case "Ref":
		return "nilref"
	case "Iface":
		return "nil_iface"
	case "Str":
		return c.strLit("")
	case "Slice":
		return "nil_slice"
	case "RType":
		return "rt_nil"
	case "Val":
		return "val_zero"
	case "Float":
		return "float_zero"
	case "TVal":
		return "tval_zero"
	case "ArrVal":
		return "arrval_zero"
	}
	if t != nil {
		tt := types.Unalias(t)
		if _, ok := tt.Underlying().(*types.Struct); ok {
			si := c.structSort(tt)
			var args []string
			for _, f := range si.Fields {
				args = append(args, c.zeroOfSort(f.Sort, f.T))
			}
			if len(args) == 0 {
				return si.ctor()
			}
			return app(si.ctor(), args...)
		}
	}
	return c.declConst("zero:"+s, s)
}

// intRange returns lo, hi (as SMT literals) for an integer Go type, ok=false if not an integer.
// intTypeParam reports whether every type in the type set of tp is an integer type, and whether all are
// signed / all unsigned.
func intTypeParam(tp *types.TypeParam) (allSigned, allUnsigned, ok bool) {
	iface, isI := tp.Constraint().Underlying().(*types.Interface)
	if !isI {
		return false, false, false
	}
	n := 0
	allSigned, allUnsigned = true, true
	for i := 0; i < iface.NumEmbeddeds(); i++ {
		et := types.Unalias(iface.EmbeddedType(i))
		var terms []*types.Term
		switch u := et.(type) {
		case *types.Union:
			for j := 0; j < u.Len(); j++ {
				terms = append(terms, u.Term(j))
			}
		default:
			if un, ok := et.Underlying().(*types.Interface); ok {
				// named constraint interface (e.g. SignedInt): look inside
				for k := 0; k < un.NumEmbeddeds(); k++ {
					if uu, ok := types.Unalias(un.EmbeddedType(k)).(*types.Union); ok {
						for j := 0; j < uu.Len(); j++ {
							terms = append(terms, uu.Term(j))
						}
					} else {
						terms = append(terms, types.NewTerm(false, un.EmbeddedType(k)))
					}
				}
			} else {
				terms = append(terms, types.NewTerm(false, et))
			}
		}
		for _, tm := range terms {
			_, sg, isInt := intBits(tm.Type())
			if !isInt {
				return false, false, false
			}
			n++
			if sg {
				allUnsigned = false
			} else {
				allSigned = false
			}
		}
	}
	if n == 0 {
		return false, false, false
	}
	return allSigned, allUnsigned, true
}

// coreTypeOf returns the single non-interface type in the type set of tp's constraint (e.g. *T for
// `interface{ *T; M() }`), or nil.
func coreTypeOf(tp *types.TypeParam) types.Type {
	iface, ok := tp.Constraint().Underlying().(*types.Interface)
	if !ok {
		return nil
	}
	var found types.Type
	for i := 0; i < iface.NumEmbeddeds(); i++ {
		et := types.Unalias(iface.EmbeddedType(i))
		if _, isI := et.Underlying().(*types.Interface); isI {
			continue
		}
		if _, isU := et.(*types.Union); isU {
			return nil
		}
		if found != nil {
			return nil
		}
		found = et
	}
	return found
}

// tpBitsName is the SMT constant holding the bit width of an integer type parameter.
func tpBitsName(tp *types.TypeParam) string { return q("bits:" + tp.Obj().Name()) }

func intRange(t types.Type) (lo, hi string, ok bool) {
	if tp, isTP := types.Unalias(t).(*types.TypeParam); isTP {
		sg, us, ok := intTypeParam(tp)
		if !ok {
			return "", "", false
		}
		b := tpBitsName(tp)
		switch {
		case sg:
			return "(- (pow2 (- " + b + " 1)))", "(- (pow2 (- " + b + " 1)) 1)", true
		case us:
			return "0", "(- (pow2 " + b + ") 1)", true
		}
		return "(- 9223372036854775808)", "18446744073709551615", true
	}
	b, isB := types.Unalias(t).Underlying().(*types.Basic)
	if !isB || b.Info()&types.IsInteger == 0 {
		return "", "", false
	}
	switch b.Kind() {
	case types.Int8:
		return "(- 128)", "127", true
	case types.Int16:
		return "(- 32768)", "32767", true
	case types.Int32:
		return "(- 2147483648)", "2147483647", true
	case types.Int, types.Int64, types.UntypedInt, types.UntypedRune:
		return "(- 9223372036854775808)", "9223372036854775807", true
	case types.Uint8:
		return "0", "255", true
	case types.Uint16:
		return "0", "65535", true
	case types.Uint32:
		return "0", "4294967295", true
	case types.Uint, types.Uint64, types.Uintptr:
		return "0", "18446744073709551615", true
	}
	return "", "", false
}

func intBits(t types.Type) (bits int, signed bool, ok bool) {
	b, isB := types.Unalias(t).Underlying().(*types.Basic)
	if !isB || b.Info()&types.IsInteger == 0 {
		return 0, false, false
	}
	switch b.Kind() {
	case types.Int8:
		return 8, true, true
	case types.Int16:
		return 16, true, true
	case types.Int32:
		return 32, true, true
	case types.Int, types.Int64, types.UntypedInt, types.UntypedRune:
		return 64, true, true
	case types.Uint8:
		return 8, false, true
	case types.Uint16:
		return 16, false, true
	case types.Uint32:
		return 32, false, true
	case types.Uint, types.Uint64, types.Uintptr:
		return 64, false, true
	}
	return 0, false, false
}

var pow2 = map[int]string{7: "128", 8: "256", 15: "32768", 16: "65536", 31: "2147483648", 32: "4294967296", 63: "9223372036854775808", 64: "18446744073709551616"}

// wrap maps a mathematical integer into the range of the given integer type (two's complement).
func wrapInt(x string, t types.Type) string {
	if tp, isTP := types.Unalias(t).(*types.TypeParam); isTP {
		sg, us, ok := intTypeParam(tp)
		if ok && (sg || us) {
			lo, hi, _ := intRange(t)
			b := tpBitsName(tp)
			if sg {
				return fmt.Sprintf("(let ((lv!w %s)) (ite (and (<= %s lv!w) (<= lv!w %s)) lv!w (- (mod (+ lv!w (pow2 (- %s 1))) (pow2 %s)) (pow2 (- %s 1)))))", x, lo, hi, b, b, b)
			}
			return fmt.Sprintf("(let ((lv!w %s)) (ite (and (<= 0 lv!w) (<= lv!w %s)) lv!w (mod lv!w (pow2 %s))))", x, hi, b)
		}
		return x
	}
	bits, signed, ok := intBits(t)
	if !ok {
		return x
	}
	lo, hi, _ := intRange(t)
	if signed {
		return fmt.Sprintf("(let ((lv!w %s)) (ite (and (<= %s lv!w) (<= lv!w %s)) lv!w (- (mod (+ lv!w %s) %s) %s)))", x, lo, hi, pow2[bits-1], pow2[bits], pow2[bits-1])
	}
	return fmt.Sprintf("(let ((lv!w %s)) (ite (and (<= 0 lv!w) (<= lv!w %s)) lv!w (mod lv!w %s)))", x, hi, pow2[bits])
}

// prelude renders the fixed declarations plus everything accumulated in the context.
func (c *smtCtx) prelude() string {
	var sb strings.Builder
	sb.WriteString("(set-option :produce-models true)\n(set-logic ALL)\n")
	for _, s := range []string{"Ref", "Val", "RType", "Str", "Iface", "Float", "TVal", "ArrVal"} {
		fmt.Fprintf(&sb, "(declare-sort %s 0)\n", s)
	}
	us := []string{}
	for s := range c.usedSorts {
		us = append(us, s)
	}
	sort.Strings(us)
	for _, s := range us {
		fmt.Fprintf(&sb, "(declare-sort %s 0)\n", s)
	}
	sb.WriteString(`(declare-const nilref Ref)
(declare-const nil_iface Iface)
(declare-const rt_nil RType)
(declare-const val_zero Val)
(declare-const float_zero Float)
(declare-const tval_zero TVal)
(declare-const arrval_zero ArrVal)
(declare-datatypes ((Slice 0)) (((mk_slice (s_arr Ref) (s_off Int) (s_len Int) (s_cap Int)))))
(define-fun nil_slice () Slice (mk_slice nilref 0 0 0))
(declare-fun dyn (Iface) Int)
(assert (= (dyn nil_iface) 0))
(assert (forall ((qv!x Iface)) (! (and (>= (dyn qv!x) 0) (=> (= (dyn qv!x) 0) (= qv!x nil_iface))) :pattern ((dyn qv!x)))))
(declare-fun allocT (Ref) Int)
(declare-fun eref (Ref Int) Ref)
(declare-fun eref_arr (Ref) Ref)
(declare-fun eref_idx (Ref) Int)
(declare-fun selem (Slice Int) Ref)
(declare-fun slen (Str) Int)
(assert (forall ((qv!s Str)) (! (and (>= (slen qv!s) 0) (<= (slen qv!s) 1099511627776)) :pattern ((slen qv!s)))))
(define-fun b2i ((b Bool)) Int (ite b 1 0))
(define-fun pow2 ((n Int)) Int (ite (= n 7) 128 (ite (= n 8) 256 (ite (= n 15) 32768 (ite (= n 16) 65536 (ite (= n 31) 2147483648 (ite (= n 32) 4294967296 (ite (= n 63) 9223372036854775808 (ite (= n 64) 18446744073709551616 0)))))))))
`)
	for _, si := range c.structL {
		var fs []string
		for _, f := range si.Fields {
			fs = append(fs, fmt.Sprintf("(%s %s)", si.acc(f.Name), f.Sort))
		}
		if len(fs) == 0 {
			fmt.Fprintf(&sb, "(declare-datatypes ((%s 0)) (((%s))))\n", si.Sort, si.ctor())
		} else {
			fmt.Fprintf(&sb, "(declare-datatypes ((%s 0)) (((%s %s))))\n", si.Sort, si.ctor(), strings.Join(fs, " "))
		}
	}
	var ics []string
	for s := range c.ifaceCtor {
		ics = append(ics, s)
	}
	sort.Strings(ics)
	for _, s := range ics {
		mk, pay := q("mki:"+s), q("pay:"+s)
		fmt.Fprintf(&sb, "(declare-fun %s (Int %s) Iface)\n(declare-fun %s (Iface) %s)\n", mk, s, pay, s)
	}
	// string literals
	var lits []string
	for l := range c.strLits {
		lits = append(lits, l)
	}
	sort.Strings(lits)
	for _, l := range lits {
		fmt.Fprintf(&sb, "(declare-const %s Str)\n(assert (= (slen %s) %d))\n", c.strLits[l], c.strLits[l], len(l))
	}
	if len(lits) > 1 {
		sb.WriteString("(assert (distinct")
		for _, l := range lits {
			sb.WriteString(" " + c.strLits[l])
		}
		sb.WriteString("))\n")
	}
	for _, d := range c.decls {
		sb.WriteString(d)
		sb.WriteString("\n")
	}
	for _, a := range c.axioms {
		fmt.Fprintf(&sb, "(assert %s)\n", a)
	}
	return sb.String()
}

// ---------------------------------------------------------------- ground instantiation of injectivity axioms

// findApps returns every application "(head ...)" occurring in text (balanced parentheses).
func findApps(text, head string) []string {
	var out []string
	pat := "(" + head + " "
	for i := 0; ; {
		j := strings.Index(text[i:], pat)
		if j < 0 {
			break
		}
		start := i + j
		depth := 0
		end := -1
		inq := false
		for k := start; k < len(text); k++ {
			ch := text[k]
			if ch == '|' {
				inq = !inq
				continue
			}
			if inq {
				continue
			}
			if ch == '(' {
				depth++
			} else if ch == ')' {
				depth--
				if depth == 0 {
					end = k
					break
				}
			}
		}
		if end < 0 {
			break
		}
		out = append(out, text[start:end+1])
		i = start + len(pat)
	}
	return out
}

func isGroundTerm(t string) bool {
	return !strings.Contains(t, "|bv:") && !strings.Contains(t, "qv!") && !strings.Contains(t, "lv!") && !strings.Contains(t, "|a:")
}

// splitArgs splits the arguments of an application "(f a b c)" at depth 1.
func splitArgs(appl string) []string {
	inner := appl[1 : len(appl)-1]
	var out []string
	depth := 0
	inq := false
	last := 0
	for i := 0; i < len(inner); i++ {
		ch := inner[i]
		if ch == '|' {
			inq = !inq
			continue
		}
		if inq {
			continue
		}
		switch ch {
		case '(':
			depth++
		case ')':
			depth--
		case ' ':
			if depth == 0 {
				if i > last {
					out = append(out, inner[last:i])
				}
				last = i + 1
			}
		}
	}
	if last < len(inner) {
		out = append(out, inner[last:])
	}
	return out
}

// injectivityAxioms renders, for the given query text, ground instances of the eref / interface
// constructor axioms, plus the quantified form where a non-ground application occurs.
func injectivityAxioms(text string, ifaceSorts []string) string {
	var sb strings.Builder
	seen := map[string]bool{}
	nonGround := false
	selemNG := false
	for _, a := range findApps(text, "selem") {
		if seen[a] {
			continue
		}
		seen[a] = true
		if !isGroundTerm(a) {
			selemNG = true
			continue
		}
		args := splitArgs(a)
		if len(args) != 3 {
			continue
		}
		er := fmt.Sprintf("(eref (s_arr %s) (+ (s_off %s) %s))", args[1], args[1], args[2])
		fmt.Fprintf(&sb, "(assert (= %s %s))\n", a, er)
		text += " " + er
	}
	if selemNG {
		nonGround = true
		sb.WriteString("(assert (forall ((qv!s Slice) (qv!k Int)) (! (= (selem qv!s qv!k) (eref (s_arr qv!s) (+ (s_off qv!s) qv!k))) :pattern ((selem qv!s qv!k)))))\n")
	}
	for _, a := range findApps(text, "eref") {
		if seen[a] {
			continue
		}
		seen[a] = true
		if !isGroundTerm(a) {
			nonGround = true
			continue
		}
		args := splitArgs(a)
		if len(args) != 3 {
			continue
		}
		fmt.Fprintf(&sb, "(assert (and (= (eref_arr %s) %s) (= (eref_idx %s) %s) (not (= %s nilref)) (= (allocT %s) (allocT %s))))\n", a, args[1], a, args[2], a, a, args[1])
	}
	if nonGround {
		sb.WriteString("(assert (forall ((qv!a Ref) (qv!i Int)) (! (and (= (eref_arr (eref qv!a qv!i)) qv!a) (= (eref_idx (eref qv!a qv!i)) qv!i) (not (= (eref qv!a qv!i) nilref)) (= (allocT (eref qv!a qv!i)) (allocT qv!a))) :pattern ((eref qv!a qv!i)))))\n")
	}
	for _, s := range ifaceSorts {
		mk, pay := q("mki:"+s), q("pay:"+s)
		ng := false
		for _, a := range findApps(text, mk) {
			if seen[a] {
				continue
			}
			seen[a] = true
			if !isGroundTerm(a) {
				ng = true
				continue
			}
			args := splitArgs(a)
			if len(args) != 3 {
				continue
			}
			fmt.Fprintf(&sb, "(assert (=> (> %s 0) (and (= (dyn %s) %s) (= (%s %s) %s))))\n", args[1], a, args[1], pay, a, args[2])
			// extensionality: an interface value with this dynamic type and this payload is this value
			fmt.Fprintf(&sb, "(assert (forall ((qv!x Iface)) (! (=> (and (= (dyn qv!x) %s) (= (%s qv!x) %s)) (= qv!x %s)) :pattern ((%s qv!x)))))\n", args[1], pay, args[2], a, pay)
		}
		if ng {
			fmt.Fprintf(&sb, "(assert (forall ((qv!t Int) (qv!v %s)) (! (=> (> qv!t 0) (and (= (dyn (%s qv!t qv!v)) qv!t) (= (%s (%s qv!t qv!v)) qv!v))) :pattern ((%s qv!t qv!v)))))\n", s, mk, pay, mk, mk)
		}
	}
	return sb.String()
}

package govc

import (
	"fmt"
	"go/ast"
	"go/token"
	"strconv"
	"strings"
)

// RunDataCheck evaluates an obligation on the literal of a package-level string table.
// It returns the obligation name, whether it holds, and a witness description when it does not.
func (e *Engine) RunDataCheck(dc *DataCheck) (name string, ok bool, witness string, err error) {
	home := e.homeOf(dc.Where)
	if home == nil {
		return "", false, "", fmt.Errorf("%s: cannot determine the package of the table check", dc.Where)
	}
	name = home.Name() + "." + dc.Var + "." + dc.Kind
	var entries []string
	found := false
	for _, p := range e.ModPkgs {
		if p.Types != home {
			continue
		}
		for _, f := range p.Syntax {
			for _, d := range f.Decls {
				gd, isG := d.(*ast.GenDecl)
				if !isG || gd.Tok != token.VAR {
					continue
				}
				for _, sp := range gd.Specs {
					vs := sp.(*ast.ValueSpec)
					for i, n := range vs.Names {
						if n.Name != dc.Var || i >= len(vs.Values) {
							continue
						}
						cl, isCL := vs.Values[i].(*ast.CompositeLit)
						if !isCL {
							return name, false, "the table is no longer a composite literal", nil
						}
						for _, el := range cl.Elts {
							bl, isBL := el.(*ast.BasicLit)
							if !isBL || bl.Kind != token.STRING {
								return name, false, "the table has a non-literal entry", nil
							}
							sv, uerr := strconv.Unquote(bl.Value)
							if uerr != nil {
								return name, false, "unparsable entry " + bl.Value, nil
							}
							entries = append(entries, sv)
						}
						found = true
					}
				}
			}
		}
	}
	if !found {
		return name, false, "package-level table " + dc.Var + " not found", nil
	}
	switch dc.Kind {
	case "nonempty_entries":
		for i, s := range entries {
			if s == "" {
				return name, false, fmt.Sprintf("entry %d is empty", i), nil
			}
		}
		return name, true, "", nil
	case "no_entry_is_proper_prefix_of_a_later_entry":
		for i := range entries {
			for j := i + 1; j < len(entries); j++ {
				if len(entries[i]) < len(entries[j]) && strings.HasPrefix(entries[j], entries[i]) {
					return name, false, fmt.Sprintf("%q (entry %d) is a proper prefix of the later entry %q (entry %d): the in-order greedy scan splits %q into %q + %q", entries[i], i, entries[j], j, entries[j], entries[i], entries[j][len(entries[i]):]), nil
				}
			}
		}
		return name, true, "", nil
	}
	return name, false, "", fmt.Errorf("%s: unknown table check %q", dc.Where, dc.Kind)
}

package govc

import (
	"fmt"
	"go/constant"
	"go/token"
	"go/types"
	"regexp"
	"sort"
	"strings"

	"golang.org/x/tools/go/ssa"
)

// Obligation is one verification condition: under all collected constraints, Guard implies Goal.
type Obligation struct {
	Name    string
	Func    string
	Kind    string
	Label   string
	Guard   string
	Goal    string
	Props   []string
	Pos     string
	Planted bool // vacuity probe: expected to fail
	Src     string
}

type loopInfo struct {
	ord      int
	header   *ssa.BasicBlock
	body     map[*ssa.BasicBlock]bool
	backs    []*ssa.BasicBlock
	spec     *LoopSpec
	modComps map[string]bool
	modAll   bool
	measure0 []Term // decreases measure at the header
	hdrState *State
	isRange  bool
}

type fnTrans struct {
	renamed map[string]string // contract identifier -> current name of the local at the same declaration position
	eng   *Engine
	c     *smtCtx
	fn    *ssa.Function
	spec  *FuncSpec
	key   string
	props []string

	compSort map[string]Sort
	compList []string
	known    map[string]Sort // components discovered by pass 1
	pass     int

	vals    map[ssa.Value]Term
	tuples  map[ssa.Value][]Term
	lifted  map[*ssa.Alloc]bool
	asserts []string
	obls    []*Obligation

	entry        *State
	cur          *State
	guard        string
	blockOut     map[*ssa.BasicBlock]*State
	outGuard     map[*ssa.BasicBlock]string
	loops        []*loopInfo
	hdrLoop      map[*ssa.BasicBlock]*loopInfo
	backEdge     map[[2]int]bool
	counters     map[string]int
	notes        []string
	unsup        []string
	defers       []*ssa.Defer
	params       map[string]Term
	results      []Term
	debug        map[string][]ssa.Value // source variable name -> SSA values (DebugRef order)
	debugAddr    map[string]*ssa.Alloc
	curBlock     *ssa.BasicBlock
	retCount     int
	trustedUsed  map[string]bool
	frefs        map[string]bool
	nonblocking  bool
	callTexts    map[token.Pos]string
	callFull     map[token.Pos]string
	candCache    map[string][]varCand
	curIdx       int
	iterCovered  map[string]int
	deferGuard   map[*ssa.Defer]string
	currentLemma string
	globalSeen   map[string]bool
}

// globalFact records that a package-level variable exists before the function starts.
func (tr *fnTrans) globalFact(g string) {
	if tr.globalSeen == nil {
		tr.globalSeen = map[string]bool{}
	}
	if tr.globalSeen[g] {
		return
	}
	tr.globalSeen[g] = true
	tr.asserts = append(tr.asserts, and(not(app("=", g, "nilref")), app("<", app("allocT", g), q("$clock@0"))))
}

// homeOf returns the package that declares the contract text located at where ("file:line"), or nil
// for spec-library files.
func (e *Engine) homeOf(where string) *types.Package {
	file := where
	if i := strings.LastIndex(where, ":"); i > 0 {
		file = where[:i]
	}
	if e.fileHome == nil {
		e.fileHome = map[string]*types.Package{}
		for _, p := range e.ModPkgs {
			for _, f := range p.GoFiles {
				e.fileHome[f] = p.Types
			}
		}
	}
	return e.fileHome[file]
}

// inHome runs f with the contract-language home package set to the one declaring `where`.
func (tr *fnTrans) inHome(where string, f func()) {
	h := tr.eng.homeOf(where)
	if h == nil || h == tr.c.home {
		f()
		return
	}
	saved := tr.c.home
	tr.c.home = h
	defer func() { tr.c.home = saved }()
	f()
}

func (tr *fnTrans) note(f string, a ...interface{}) {
	tr.notes = append(tr.notes, fmt.Sprintf(f, a...))
}

func (tr *fnTrans) unsupported(f string, a ...interface{}) {
	m := fmt.Sprintf(f, a...)
	for _, u := range tr.unsup {
		if u == m {
			return
		}
	}
	tr.unsup = append(tr.unsup, m)
}

// ---------------------------------------------------------------- components

func (tr *fnTrans) regComp(name string, s Sort) {
	if old, ok := tr.compSort[name]; ok {
		if old != s {
			panic(fmt.Sprintf("component %s used at sorts %s and %s", name, old, s))
		}
		return
	}
	tr.compSort[name] = s
	tr.compList = append(tr.compList, name)
	tr.c.declConst(name+"@0", s)
}

func (tr *fnTrans) get(st *State, name string, s Sort) string {
	if st == nil {
		panic(evalErr{"heap or ghost state is not available in this context (" + name + ")"})
	}
	tr.regComp(name, s)
	if t, ok := st.comps[name]; ok {
		return t
	}
	return q(name + "@0")
}

func (tr *fnTrans) set(st *State, name string, s Sort, term string) {
	tr.regComp(name, s)
	st.comps[name] = term
}

func (tr *fnTrans) havoc(st *State, name string) {
	s, ok := tr.compSort[name]
	if !ok {
		panic("havoc of unknown component " + name)
	}
	st.comps[name] = tr.c.freshConst(name, s)
}

func (tr *fnTrans) allComps() []string {
	m := map[string]bool{}
	var out []string
	for _, n := range tr.compList {
		if !m[n] {
			m[n] = true
			out = append(out, n)
		}
	}
	for n, s := range tr.known {
		if !m[n] {
			tr.regComp(n, s)
			m[n] = true
			out = append(out, n)
		}
	}
	sort.Strings(out)
	return out
}

func (tr *fnTrans) havocAll(st *State) {
	for _, n := range tr.allComps() {
		if strings.HasPrefix(n, "L:") {
			continue
		}
		if n == "$clock" {
			continue
		}
		tr.havoc(st, n)
	}
}

func (tr *fnTrans) fref(structName, field string) string {
	name := "fref:" + structName + "." + field
	if !tr.c.declared[q(name)] {
		f := tr.c.declFun(name, []Sort{"Ref"}, "Ref")
		tr.c.axioms = append(tr.c.axioms, fmt.Sprintf("(forall ((qv!x Ref)) (! (and (= (allocT (%s qv!x)) (allocT qv!x)) (=> (not (= qv!x nilref)) (not (= (%s qv!x) nilref)))) :pattern ((%s qv!x))))", f, f, f))
		return f
	}
	return q(name)
}

func (tr *fnTrans) clock(st *State) string { return tr.get(st, "$clock", "Int") }

// compForModifies resolves a name in a modifies clause to a component (registering it).
func (tr *fnTrans) compForModifies(name string) (string, error) {
	if strings.HasPrefix(name, "C:") || strings.HasPrefix(name, "H:") || strings.HasPrefix(name, "G:") || strings.HasPrefix(name, "M") && strings.Contains(name, ":") {
		if strings.HasPrefix(name, "C:") {
			tr.regComp(name, "(Array Ref "+name[2:]+")")
		}
		if _, ok := tr.compSort[name]; !ok {
			if s, ok := tr.known[name]; ok {
				tr.regComp(name, s)
			} else if strings.HasPrefix(name, "H:") {
				return tr.compForModifies(name[2:])
			} else {
				return "", fmt.Errorf("modifies: unknown component %s", name)
			}
		}
		return name, nil
	}
	if g, ok := tr.eng.Specs.GhostIx[name]; ok {
		s, _, err := tr.c.specSort(g.Sort)
		if err != nil {
			return "", err
		}
		tr.regComp("G:"+name, s)
		return "G:" + name, nil
	}
	if strings.HasPrefix(name, "recvlog_") {
		vs := name[len("recvlog_"):]
		if t := tr.eng.LookupGoType(vs, tr.c.home); t != nil && !baseSorts[vs] {
			vs = tr.c.sortOf(t)
		}
		tr.regComp("G:recvlog_"+vs, "(Array Ref (Array Int "+vs+"))")
		return "G:recvlog_" + vs, nil
	}
	if strings.HasPrefix(name, "sentlog_") {
		vs := name[len("sentlog_"):]
		if t := tr.eng.LookupGoType(vs, tr.c.home); t != nil && !baseSorts[vs] {
			vs = tr.c.sortOf(t)
		}
		tr.regComp("G:sentlog_"+vs, "(Array Ref (Array Int "+vs+"))")
		return "G:sentlog_" + vs, nil
	}
	// Type.field
	i := strings.LastIndex(name, ".")
	if i > 0 {
		t := tr.eng.LookupGoType(name[:i], tr.c.home)
		if t != nil {
			if st, named, _ := derefStruct(t); st != nil {
				if f := findField(st, name[i+1:]); f != nil {
					comp := "H:" + structCanon(named) + "." + f.Name()
					tr.regComp(comp, "(Array Ref "+tr.c.sortOf(f.Type())+")")
					return comp, nil
				}
			}
		}
	}
	return "", fmt.Errorf("modifies: cannot resolve %q", name)
}

// ---------------------------------------------------------------- guards, assumptions, obligations

func (tr *fnTrans) assume(phi string) {
	if phi == "true" {
		return
	}
	tr.asserts = append(tr.asserts, imp(tr.guard, phi))
}

func (tr *fnTrans) ord(kind string) int {
	n := tr.counters[kind]
	tr.counters[kind] = n + 1
	return n
}

func (tr *fnTrans) pos(p token.Pos) string {
	if !p.IsValid() {
		return ""
	}
	ps := tr.eng.Prog.Fset.Position(p)
	return fmt.Sprintf("%s:%d", ps.Filename, ps.Line)
}

// oblige records an obligation under the current guard and then assumes it.
func (tr *fnTrans) oblige(kind, local, goal string, p token.Pos, props []string, src string) {
	tr.obligeG(tr.guard, kind, local, goal, p, props, src)
	if goal == "true" {
		return
	}
	g := tr.c.freshConst("g", "Bool")
	tr.asserts = append(tr.asserts, app("=", g, and(tr.guard, goal)))
	tr.guard = g
}

func (tr *fnTrans) obligeG(guard, kind, local, goal string, p token.Pos, props []string, src string) {
	if tr.spec != nil && tr.spec.Flags["only_at"] != "" && kind != "assert" && !strings.HasPrefix(local, "vacuity.") {
		// the function is under contract only for its at-call clauses (which calls it makes, with what arguments);
		// everything else about it is not examined
		return
	}
	if props == nil {
		props = tr.props
		switch kind {
		case "nil", "bounds", "panic", "send", "recv", "select", "close", "makechan", "makeslice", "slice", "typeassert", "div", "frame", "anchor", "decreases":
			if len(tr.spec.Safety) > 0 {
				props = tr.spec.Safety
			}
		case "pre":
			// a callee precondition without a property label (library preconditions such as reflect_...): failing
			// it means a possible panic, so it counts for the safety properties as well as for the function's own
			seen := map[string]bool{}
			var u []string
			for _, p := range append(append([]string{}, tr.props...), tr.spec.Safety...) {
				if !seen[p] {
					seen[p] = true
					u = append(u, p)
				}
			}
			props = u
		}
	}
	tr.obls = append(tr.obls, &Obligation{Name: tr.key + "." + local, Func: tr.key, Kind: kind, Label: local, Guard: guard, Goal: goal,
		Props: props, Pos: tr.pos(p), Src: src})
}

var rePropLabel = regexp.MustCompile(`^((?:C\d\d_)+)`)

// propsOfLabel extracts property ids from a clause label such as C04_C07_reply_once.
func (tr *fnTrans) propsOfLabel(label string) []string {
	m := rePropLabel.FindString(label)
	if m == "" {
		return nil
	}
	return strings.Split(strings.TrimSuffix(m, "_"), "_")
}

// ---------------------------------------------------------------- memory locations

const (
	locLocal = iota // lifted local variable component(s)
	locField        // heap field component indexed by base ref
	locCell         // scalar cell at a ref
	locObj          // whole struct object at a ref
)

type loc struct {
	kind  int
	comp  string // locField: H:S.f ; locCell: C:sort ; locLocal: L:name.path
	base  string // ref term (locField, locCell, locObj)
	t     types.Type
	known bool // base known non-nil
}

func fieldName(st *types.Struct, i int) string {
	if n := st.Field(i).Name(); n != "_" {
		return n
	}
	return fmt.Sprintf("_%d", i)
}

func isStructType(t types.Type) bool {
	t = types.Unalias(t)
	if isNamed(t, "reflect", "Value") {
		return false
	}
	_, ok := t.Underlying().(*types.Struct)
	return ok
}

func (tr *fnTrans) isLifted(a *ssa.Alloc) bool {
	if v, ok := tr.lifted[a]; ok {
		return v
	}
	res := !a.Heap
	if res {
		if _, isArr := types.Unalias(a.Type().(*types.Pointer).Elem()).Underlying().(*types.Array); isArr {
			res = false
		}
	}
	if res {
		var ok func(v ssa.Value) bool
		ok = func(v ssa.Value) bool {
			for _, r := range *v.Referrers() {
				switch u := r.(type) {
				case *ssa.Store:
					if u.Val == v {
						return false
					}
				case *ssa.UnOp:
				case *ssa.FieldAddr:
					if !ok(u) {
						return false
					}
				case *ssa.DebugRef:
				default:
					return false
				}
			}
			return true
		}
		res = ok(a)
	}
	tr.lifted[a] = res
	return res
}

func (tr *fnTrans) allocName(a *ssa.Alloc) string {
	return fmt.Sprintf("%s#%s", a.Name(), a.Comment)
}

// refLoc makes a location for a pointer value given as a ref term.
func (tr *fnTrans) refLoc(ref string, elem types.Type, known bool) loc {
	if isStructType(elem) {
		return loc{kind: locObj, base: ref, t: elem, known: known}
	}
	s := tr.c.sortOf(elem)
	return loc{kind: locCell, comp: "C:" + s, base: ref, t: elem, known: known}
}

func (tr *fnTrans) locOf(v ssa.Value) loc {
	switch x := v.(type) {
	case *ssa.Alloc:
		elem := x.Type().(*types.Pointer).Elem()
		if tr.isLifted(x) {
			return loc{kind: locLocal, comp: "L:" + tr.allocName(x), t: elem, known: true}
		}
		return tr.refLoc(tr.val(x).S, elem, true)
	case *ssa.FieldAddr:
		pt := types.Unalias(x.X.Type()).Underlying().(*types.Pointer)
		st, named, _ := derefStruct(pt)
		f := st.Field(x.Field)
		bl := tr.locOf(x.X)
		switch bl.kind {
		case locLocal:
			return loc{kind: locLocal, comp: bl.comp + "." + f.Name(), t: f.Type(), known: true}
		case locObj:
			if isStructType(f.Type()) {
				return loc{kind: locObj, base: app(tr.fref(structCanon(named), f.Name()), bl.base), t: f.Type(), known: true}
			}
			return loc{kind: locField, comp: "H:" + structCanon(named) + "." + f.Name(), base: bl.base, t: f.Type(), known: true}
		}
		panic("FieldAddr on non-struct location")
	case *ssa.IndexAddr:
		idx := tr.val(x.Index).S
		xt := types.Unalias(x.X.Type()).Underlying()
		switch u := xt.(type) {
		case *types.Slice:
			s := tr.val(x.X).S
			return tr.refLoc(app("selem", s, idx), u.Elem(), true)
		case *types.Pointer:
			arr := types.Unalias(u.Elem()).Underlying().(*types.Array)
			bl := tr.locOf(x.X)
			base := bl.base
			if bl.kind == locLocal {
				panic("lifted array local")
			}
			return tr.refLoc(app("eref", base, idx), arr.Elem(), true)
		}
		panic("IndexAddr on " + xt.String())
	}
	pt, ok := types.Unalias(v.Type()).Underlying().(*types.Pointer)
	if !ok {
		panic("locOf on non-pointer " + v.Type().String())
	}
	return tr.refLoc(tr.val(v).S, pt.Elem(), false)
}

// loadRef reads a value of Go type t stored at ref (scalar cell, or a pointer to the struct for struct types).
func (tr *fnTrans) loadRef(st *State, ref string, t types.Type) Term {
	if isStructType(t) {
		return Term{ref, "Ref", types.NewPointer(t)}
	}
	s := tr.c.sortOf(t)
	return Term{app("select", tr.get(st, "C:"+s, "(Array Ref "+s+")"), ref), s, t}
}

func (tr *fnTrans) load(st *State, l loc) Term {
	c := tr.c
	switch l.kind {
	case locLocal:
		if isStructType(l.t) {
			si := c.structSort(l.t)
			var args []string
			for _, f := range si.Fields {
				args = append(args, tr.load(st, loc{kind: locLocal, comp: l.comp + "." + f.Name, t: f.T}).S)
			}
			return Term{app(si.ctor(), args...), si.Sort, l.t}
		}
		s := c.sortOf(l.t)
		tr.regLocal(l.comp, s, l.t)
		return Term{tr.get(st, l.comp, s), s, l.t}
	case locField, locCell:
		s := c.sortOf(l.t)
		return Term{app("select", tr.get(st, l.comp, "(Array Ref "+s+")"), l.base), s, l.t}
	case locObj:
		st2, named, _ := derefStruct(l.t)
		si := c.structSort(l.t)
		var args []string
		for i := 0; i < st2.NumFields(); i++ {
			f := st2.Field(i)
			fname := fieldName(st2, i)
			var fl loc
			if isStructType(f.Type()) {
				fl = loc{kind: locObj, base: app(tr.fref(structCanon(named), fname), l.base), t: f.Type()}
			} else {
				fl = loc{kind: locField, comp: "H:" + structCanon(named) + "." + fname, base: l.base, t: f.Type()}
			}
			args = append(args, tr.load(st, fl).S)
		}
		return Term{app(si.ctor(), args...), si.Sort, l.t}
	}
	panic("load")
}

func (tr *fnTrans) regLocal(comp string, s Sort, t types.Type) {
	if _, ok := tr.compSort[comp]; !ok {
		tr.regComp(comp, s)
	}
}

func (tr *fnTrans) store(st *State, l loc, v Term) {
	c := tr.c
	switch l.kind {
	case locLocal:
		if isStructType(l.t) {
			si := c.structSort(l.t)
			for _, f := range si.Fields {
				tr.store(st, loc{kind: locLocal, comp: l.comp + "." + f.Name, t: f.T}, Term{app(si.acc(f.Name), v.S), f.Sort, f.T})
			}
			return
		}
		s := c.sortOf(l.t)
		tr.set(st, l.comp, s, v.S)
	case locField, locCell:
		s := c.sortOf(l.t)
		as := "(Array Ref " + s + ")"
		tr.set(st, l.comp, as, app("store", tr.get(st, l.comp, as), l.base, v.S))
	case locObj:
		st2, named, _ := derefStruct(l.t)
		si := c.structSort(l.t)
		for i := 0; i < st2.NumFields(); i++ {
			f := st2.Field(i)
			fname := fieldName(st2, i)
			fv := Term{app(si.acc(fname), v.S), c.sortOf(f.Type()), f.Type()}
			if isStructType(f.Type()) {
				tr.store(st, loc{kind: locObj, base: app(tr.fref(structCanon(named), fname), l.base), t: f.Type()}, fv)
			} else {
				tr.store(st, loc{kind: locField, comp: "H:" + structCanon(named) + "." + fname, base: l.base, t: f.Type()}, fv)
			}
		}
	}
}

// compsOfLoc lists the components a store to l writes.
func (tr *fnTrans) compsOfLoc(l loc, out map[string]bool) {
	c := tr.c
	switch l.kind {
	case locLocal:
		if isStructType(l.t) {
			si := c.structSort(l.t)
			for _, f := range si.Fields {
				tr.compsOfLoc(loc{kind: locLocal, comp: l.comp + "." + f.Name, t: f.T}, out)
			}
			return
		}
		tr.regLocal(l.comp, c.sortOf(l.t), l.t)
		out[l.comp] = true
	case locField, locCell:
		tr.regComp(l.comp, "(Array Ref "+c.sortOf(l.t)+")")
		out[l.comp] = true
	case locObj:
		st2, named, _ := derefStruct(l.t)
		for i := 0; i < st2.NumFields(); i++ {
			f := st2.Field(i)
			if isStructType(f.Type()) {
				tr.compsOfLoc(loc{kind: locObj, base: "x", t: f.Type()}, out)
			} else {
				tr.compsOfLoc(loc{kind: locField, comp: "H:" + structCanon(named) + "." + fieldName(st2, i), base: "x", t: f.Type()}, out)
			}
		}
	}
}

// ---------------------------------------------------------------- values

func (tr *fnTrans) val(v ssa.Value) Term {
	if t, ok := tr.vals[v]; ok {
		return t
	}
	c := tr.c
	switch x := v.(type) {
	case *ssa.Const:
		return tr.constTerm(x)
	case *ssa.Parameter, *ssa.FreeVar:
		s := c.sortOf(v.Type())
		t := Term{c.declConst("p:"+v.Name(), s), s, v.Type()}
		tr.vals[v] = t
		return t
	case *ssa.Function:
		t := Term{c.declConst("fn:"+x.String(), "Ref"), "Ref", v.Type()}
		tr.asserts = append(tr.asserts, not(app("=", t.S, "nilref")))
		tr.vals[v] = t
		return t
	case *ssa.Global:
		t := Term{c.declConst("glob:"+x.String(), "Ref"), "Ref", v.Type()}
		tr.asserts = append(tr.asserts, not(app("=", t.S, "nilref")))
		tr.asserts = append(tr.asserts, app("<", app("allocT", t.S), q("$clock@0")))
		tr.vals[v] = t
		return t
	case *ssa.FieldAddr:
		// used as a value: address of a field
		l := tr.locOf(x)
		switch l.kind {
		case locObj:
			return Term{l.base, "Ref", v.Type()}
		case locField:
			st, named, _ := derefStruct(types.Unalias(x.X.Type()))
			tr.unsupported("escaping address of scalar field %s.%s", structCanon(named), st.Field(x.Field).Name())
			return Term{app(tr.fref(structCanon(named), st.Field(x.Field).Name()), l.base), "Ref", v.Type()}
		}
		panic("address of lifted local field used as value")
	case *ssa.IndexAddr:
		l := tr.locOf(x)
		return Term{l.base, "Ref", v.Type()}
	}
	panic(fmt.Sprintf("value %s (%T) used before definition in %s", v.Name(), v, tr.key))
}

func (tr *fnTrans) constTerm(x *ssa.Const) Term {
	c := tr.c
	t := x.Type()
	s := c.sortOf(t)
	if x.Value == nil {
		return Term{c.zeroOfSort(s, t), s, t}
	}
	switch x.Value.Kind() {
	case constant.Bool:
		if constant.BoolVal(x.Value) {
			return Term{"true", "Bool", t}
		}
		return Term{"false", "Bool", t}
	case constant.Int:
		if s == "Int" {
			return Term{intLit(x.Value.ExactString()), "Int", t}
		}
		if s == "Float" {
			return Term{c.declConst("floatlit:"+x.Value.ExactString(), "Float"), "Float", t}
		}
	case constant.String:
		return Term{c.strLit(constant.StringVal(x.Value)), "Str", t}
	case constant.Float, constant.Complex:
		return Term{c.declConst("floatlit:"+x.Value.ExactString(), "Float"), "Float", t}
	}
	return Term{c.freshConst("const", s), s, t}
}

// useTypeParam declares the symbolic bit width of an integer type parameter.
func (tr *fnTrans) useTypeParam(t types.Type) {
	tp, ok := types.Unalias(t).(*types.TypeParam)
	if !ok {
		return
	}
	if _, _, isInt := intTypeParam(tp); !isInt {
		return
	}
	name := "bits:" + tp.Obj().Name()
	if tr.c.declared[q(name)] {
		return
	}
	b := tr.c.declConst(name, "Int")
	// the widths that occur in the type set
	widths := map[int]bool{}
	iface := tp.Constraint().Underlying().(*types.Interface)
	var collect func(t types.Type)
	collect = func(t types.Type) {
		t = types.Unalias(t)
		if u, ok := t.(*types.Union); ok {
			for j := 0; j < u.Len(); j++ {
				collect(u.Term(j).Type())
			}
			return
		}
		if bits, _, ok := intBits(t); ok {
			widths[bits] = true
			return
		}
		if in, ok := t.Underlying().(*types.Interface); ok {
			for k := 0; k < in.NumEmbeddeds(); k++ {
				collect(in.EmbeddedType(k))
			}
		}
	}
	for i := 0; i < iface.NumEmbeddeds(); i++ {
		collect(iface.EmbeddedType(i))
	}
	var alts []string
	for _, w := range []int{8, 16, 32, 64} {
		if widths[w] {
			alts = append(alts, app("=", b, fmt.Sprint(w)))
		}
	}
	tr.asserts = append(tr.asserts, or(alts...))
}

// wf adds well-formedness assumptions for a freshly introduced value of Go type t.
func (tr *fnTrans) wf(v Term, t types.Type) {
	if t == nil {
		return
	}
	switch v.Sort {
	case "Int":
		tr.useTypeParam(t)
		if lo, hi, ok := intRange(t); ok {
			tr.assume(and(app("<=", lo, v.S), app("<=", v.S, hi)))
		}
	case "Slice":
		tr.assume(and(app("<=", "0", app("s_len", v.S)), app("<=", app("s_len", v.S), app("s_cap", v.S)), app("<=", "0", app("s_off", v.S)),
			app("<=", app("s_cap", v.S), "9223372036854775807"),
			imp(app("=", app("s_arr", v.S), "nilref"), app("=", app("s_cap", v.S), "0")),
			app("<", app("allocT", app("s_arr", v.S)), tr.clock(tr.cur))))
	case "Ref":
		tr.assume(app("<", app("allocT", v.S), tr.clock(tr.cur)))
	}
}

package govc

import (
	"fmt"
	"go/types"
	"math/big"
	"strings"
)

// State maps heap / ghost / local components to their current SMT term.
type State struct {
	comps map[string]string
}

func (s *State) clone() *State {
	n := &State{comps: make(map[string]string, len(s.comps))}
	for k, v := range s.comps {
		n.comps[k] = v
	}
	return n
}

// evalCtx evaluates contract expressions to SMT terms.
type evalCtx struct {
	tr    *fnTrans
	env   map[string]Term
	cur   *State
	old   *State
	names func(ev *evalCtx, name string) (Term, bool)
	bound map[string]Term
	// oldIsHeader: old() denotes a loop-header state (iter_ensures), so variables inside old() still resolve
	// through names; otherwise old() is the function entry and parameters resolve to their entry values
	oldIsHeader bool
	inOld       bool
}

func (ev *evalCtx) with(cur *State) *evalCtx {
	n := *ev
	n.cur = cur
	return &n
}

type evalErr struct{ msg string }

func (e evalErr) Error() string { return e.msg }

func (ev *evalCtx) fail(f string, a ...interface{}) {
	panic(evalErr{fmt.Sprintf(f, a...)})
}

// Eval evaluates e; errors are returned, not panicked.
func (ev *evalCtx) Eval(e *Expr) (t Term, err error) {
	defer func() {
		if r := recover(); r != nil {
			if ee, ok := r.(evalErr); ok {
				err = ee
				return
			}
			panic(r)
		}
	}()
	return ev.eval(e), nil
}

func (ev *evalCtx) EvalBool(e *Expr) (string, error) {
	t, err := ev.Eval(e)
	if err != nil {
		return "", err
	}
	if t.Sort != "Bool" {
		return "", fmt.Errorf("expression %s has sort %s, want Bool", e, t.Sort)
	}
	return t.S, nil
}

func derefStruct(t types.Type) (*types.Struct, types.Type, bool) {
	if t == nil {
		return nil, nil, false
	}
	t = types.Unalias(t)
	ptr := false
	if p, ok := t.Underlying().(*types.Pointer); ok {
		t = types.Unalias(p.Elem())
		ptr = true
	}
	if n, ok := t.(*types.Named); ok {
		t = n.Origin()
	}
	st, ok := t.Underlying().(*types.Struct)
	if !ok {
		return nil, nil, false
	}
	return st, t, ptr
}

func findField(st *types.Struct, name string) *types.Var {
	for i := 0; i < st.NumFields(); i++ {
		if st.Field(i).Name() == name {
			return st.Field(i)
		}
	}
	return nil
}

func (ev *evalCtx) eval(e *Expr) Term {
	c := ev.tr.c
	switch e.Op {
	case "int":
		n := new(big.Int)
		if _, ok := n.SetString(e.Name, 0); !ok {
			ev.fail("bad integer %q", e.Name)
		}
		return Term{n.String(), "Int", nil}
	case "bool":
		return Term{e.Name, "Bool", nil}
	case "str":
		return Term{c.strLit(e.Name), "Str", types.Typ[types.String]}
	case "nil":
		return Term{"nilref", "Ref", nil}
	case "ident":
		return ev.ident(e.Name)
	case "old":
		if ev.old == nil {
			ev.fail("old() not available here")
		}
		n := *ev
		n.cur = ev.old
		n.inOld = true
		return n.eval(e.Args[0])
	case "sel":
		return ev.sel(ev.eval(e.Args[0]), e.Name)
	case "addr":
		// &x.f : address of a (nested) field
		if e.Args[0].Op != "sel" {
			ev.fail("& needs a field selection")
		}
		base := ev.eval(e.Args[0].Args[0])
		st, named, ptr := derefStruct(base.T)
		if st == nil || !ptr {
			ev.fail("& on non-pointer base %s", e.Args[0].Args[0])
		}
		f := findField(st, e.Args[0].Name)
		if f == nil {
			ev.fail("no field %s", e.Args[0].Name)
		}
		return Term{app(ev.tr.fref(structCanon(named), f.Name()), base.S), "Ref", types.NewPointer(f.Type())}
	case "index":
		b := ev.eval(e.Args[0])
		i := ev.eval(e.Args[1])
		if strings.HasPrefix(b.Sort, "(Array ") {
			_, vs := arraySorts(b.Sort)
			return Term{app("select", b.S, i.S), vs, nil}
		}
		if b.Sort == "Slice" {
			var et types.Type
			if b.T != nil {
				if sl, ok := types.Unalias(b.T).Underlying().(*types.Slice); ok {
					et = sl.Elem()
				}
			}
			if et == nil {
				ev.fail("slice %s has unknown element type", e.Args[0])
			}
			ref := app("selem", b.S, i.S)
			return ev.tr.loadRef(ev.cur, ref, et)
		}
		if b.Sort == "Str" {
			return Term{app(c.declFun("sbyte", []Sort{"Str", "Int"}, "Int"), b.S, i.S), "Int", nil}
		}
		ev.fail("cannot index %s of sort %s", e.Args[0], b.Sort)
	case "update":
		b := ev.eval(e.Args[0])
		i := ev.eval(e.Args[1])
		v := ev.eval(e.Args[2])
		if !strings.HasPrefix(b.Sort, "(Array ") {
			ev.fail("update on non-array %s", e.Args[0])
		}
		_, vs := arraySorts(b.Sort)
		v = ev.coerceNil(v, vs)
		return Term{app("store", b.S, i.S, v.S), b.Sort, nil}
	case "forall", "exists":
		n := *ev
		n.bound = map[string]Term{}
		for k, v := range ev.bound {
			n.bound[k] = v
		}
		var binders []string
		for _, bv := range e.Vars {
			s, gt, err := c.specSort(bv.Sort)
			if err != nil {
				ev.fail("%v", err)
			}
			c.fresh++
			vn := q(fmt.Sprintf("bv:%s!%d", bv.Name, c.fresh))
			n.bound[bv.Name] = Term{vn, s, gt}
			binders = append(binders, fmt.Sprintf("(%s %s)", vn, s))
		}
		body := n.eval(e.Args[0])
		if body.Sort != "Bool" {
			ev.fail("quantifier body is not Bool")
		}
		bs := body.S
		if len(e.Trigs) > 0 {
			var pats []string
			for _, g := range e.Trigs {
				var ts []string
				for _, t := range g {
					ts = append(ts, n.eval(t).S)
				}
				pats = append(pats, ":pattern ("+strings.Join(ts, " ")+")")
			}
			bs = fmt.Sprintf("(! %s %s)", bs, strings.Join(pats, " "))
		}
		return Term{fmt.Sprintf("(%s (%s) %s)", e.Op, strings.Join(binders, " "), bs), "Bool", nil}
	case "call":
		return ev.call(e)
	case "!":
		a := ev.eval(e.Args[0])
		ev.want(a, "Bool", e.Args[0])
		return Term{not(a.S), "Bool", nil}
	case "neg":
		a := ev.eval(e.Args[0])
		ev.want(a, "Int", e.Args[0])
		return Term{"(- " + a.S + ")", "Int", nil}
	case "&&", "||", "==>", "<==>":
		a, b := ev.eval(e.Args[0]), ev.eval(e.Args[1])
		ev.want(a, "Bool", e.Args[0])
		ev.want(b, "Bool", e.Args[1])
		switch e.Op {
		case "&&":
			return Term{and(a.S, b.S), "Bool", nil}
		case "||":
			return Term{or(a.S, b.S), "Bool", nil}
		case "==>":
			return Term{imp(a.S, b.S), "Bool", nil}
		default:
			return Term{app("=", a.S, b.S), "Bool", nil}
		}
	case "==", "!=":
		a, b := ev.eval(e.Args[0]), ev.eval(e.Args[1])
		if e.Args[0].Op == "nil" {
			a = ev.coerceNil(a, b.Sort)
		}
		if e.Args[1].Op == "nil" {
			b = ev.coerceNil(b, a.Sort)
		}
		if a.Sort != b.Sort {
			ev.fail("sort mismatch in %s: %s vs %s", e, a.Sort, b.Sort)
		}
		s := app("=", a.S, b.S)
		if e.Op == "!=" {
			s = not(s)
		}
		return Term{s, "Bool", nil}
	case "<", "<=", ">", ">=":
		a, b := ev.eval(e.Args[0]), ev.eval(e.Args[1])
		ev.want(a, "Int", e.Args[0])
		ev.want(b, "Int", e.Args[1])
		return Term{app(e.Op, a.S, b.S), "Bool", nil}
	case "+", "-", "*":
		a, b := ev.eval(e.Args[0]), ev.eval(e.Args[1])
		ev.want(a, "Int", e.Args[0])
		ev.want(b, "Int", e.Args[1])
		return Term{app(e.Op, a.S, b.S), "Int", nil}
	case "/":
		a, b := ev.eval(e.Args[0]), ev.eval(e.Args[1])
		return Term{app("div", a.S, b.S), "Int", nil}
	case "%":
		a, b := ev.eval(e.Args[0]), ev.eval(e.Args[1])
		return Term{app("mod", a.S, b.S), "Int", nil}
	}
	ev.fail("unsupported expression %s", e)
	return Term{}
}

func arraySorts(s Sort) (Sort, Sort) {
	// "(Array K V)" -> K, V ; K and V may be parenthesised
	inner := strings.TrimSuffix(strings.TrimPrefix(s, "(Array "), ")")
	depth := 0
	for i := 0; i < len(inner); i++ {
		switch inner[i] {
		case '(':
			depth++
		case ')':
			depth--
		case ' ':
			if depth == 0 {
				return inner[:i], inner[i+1:]
			}
		}
	}
	return inner, ""
}

func (ev *evalCtx) want(t Term, s Sort, e *Expr) {
	if t.Sort != s {
		ev.fail("expression %s has sort %s, want %s", e, t.Sort, s)
	}
}

func (ev *evalCtx) coerceNil(t Term, s Sort) Term {
	if t.S != "nilref" || s == "Ref" {
		return t
	}
	switch s {
	case "Iface":
		return Term{"nil_iface", s, nil}
	case "Slice":
		return Term{"nil_slice", s, nil}
	case "RType":
		return Term{"rt_nil", s, nil}
	}
	ev.fail("nil has no meaning at sort %s", s)
	return t
}

func (ev *evalCtx) ident(name string) Term {
	c := ev.tr.c
	if t, ok := ev.bound[name]; ok {
		return t
	}
	// the current value of a source variable (a reassigned parameter has phis) takes precedence over the
	// entry value bound in env
	if ev.inOld && !ev.oldIsHeader {
		if t, ok := ev.env[name]; ok {
			return t
		}
	}
	if ev.names != nil {
		if t, ok := ev.names(ev, name); ok {
			return t
		}
	}
	if t, ok := ev.env[name]; ok {
		return t
	}
	if cd, ok := ev.tr.eng.Specs.Consts[name]; ok {
		s, _, err := c.specSort(cd.Sort)
		if err != nil {
			ev.fail("%v", err)
		}
		if cd.Val != "" {
			return Term{intLit(cd.Val), s, nil}
		}
		return Term{c.declConst("const:"+name, s), s, nil}
	}
	if g, ok := ev.tr.eng.Specs.GhostIx[name]; ok {
		s, gt, err := c.specSort(g.Sort)
		if err != nil {
			ev.fail("%v", err)
		}
		return Term{ev.tr.get(ev.cur, "G:"+name, s), s, gt}
	}
	if fd, ok := ev.tr.eng.Specs.FunIdx[name]; ok && len(fd.Params) == 0 {
		return ev.callSpecFun(fd, nil)
	}
	if strings.HasPrefix(name, "rec_") {
		if s, ok := ev.tr.compSort["G:"+name]; ok {
			return Term{ev.tr.get(ev.cur, "G:"+name, s), s, nil}
		}
		if s, ok := ev.tr.known["G:"+name]; ok {
			return Term{ev.tr.get(ev.cur, "G:"+name, s), s, nil}
		}
		if strings.HasSuffix(name, "_cnt") {
			return Term{ev.tr.get(ev.cur, "G:"+name, "Int"), "Int", nil}
		}
		if s := ev.tr.recSort(name); s != "" {
			return Term{ev.tr.get(ev.cur, "G:"+name, s), s, nil}
		}
		ev.fail("call-record ghost %q is not known here", name)
	}
	if strings.HasPrefix(name, "recvlog_") {
		s := "(Array Ref (Array Int " + name[len("recvlog_"):] + "))"
		return Term{ev.tr.get(ev.cur, "G:"+name, s), s, nil}
	}
	if strings.HasPrefix(name, "sentlog_") {
		s := "(Array Ref (Array Int " + name[len("sentlog_"):] + "))"
		return Term{ev.tr.get(ev.cur, "G:"+name, s), s, nil}
	}
	if name == "val_zero" {
		return Term{"val_zero", "Val", nil}
	}
	if name == "clock" {
		return Term{ev.tr.get(ev.cur, "$clock", "Int"), "Int", nil}
	}
	ev.fail("unknown identifier %q", name)
	return Term{}
}

func (ev *evalCtx) sel(base Term, name string) Term {
	c := ev.tr.c
	if base.Sort == "Slice" {
		switch name {
		case "len":
			return Term{app("s_len", base.S), "Int", nil}
		case "cap":
			return Term{app("s_cap", base.S), "Int", nil}
		case "arr":
			return Term{app("s_arr", base.S), "Ref", nil}
		case "off":
			return Term{app("s_off", base.S), "Int", nil}
		}
	}
	st, named, ptr := derefStruct(base.T)
	if st == nil {
		ev.fail("selector .%s on a value without struct type (sort %s)", name, base.Sort)
	}
	f := findField(st, name)
	if f == nil {
		ev.fail("type %s has no field %s", TypeString(named), name)
	}
	if ptr {
		fs := c.sortOf(f.Type())
		if _, isStruct := types.Unalias(f.Type()).Underlying().(*types.Struct); isStruct && fs != "Val" {
			// nested struct by value: yield a pointer to it
			return Term{app(ev.tr.fref(structCanon(named), name), base.S), "Ref", types.NewPointer(f.Type())}
		}
		comp := "H:" + structCanon(named) + "." + name
		arr := ev.tr.get(ev.cur, comp, "(Array Ref "+fs+")")
		return Term{app("select", arr, base.S), fs, f.Type()}
	}
	si := c.structSort(named)
	return Term{app(si.acc(name), base.S), c.sortOf(f.Type()), f.Type()}
}

func (ev *evalCtx) strArg(e *Expr) string {
	if e.Op != "str" {
		ev.fail("expected a string literal, got %s", e)
	}
	return e.Name
}

func (ev *evalCtx) call(e *Expr) Term {
	c := ev.tr.c
	arg := func(i int) Term { return ev.eval(e.Args[i]) }
	switch e.Name {
	case "len":
		a := arg(0)
		switch a.Sort {
		case "Slice":
			return Term{app("s_len", a.S), "Int", nil}
		case "Str":
			return Term{app("slen", a.S), "Int", nil}
		case "Ref":
			if a.T != nil {
				if _, isMap := types.Unalias(a.T).Underlying().(*types.Map); isMap {
					cs := ev.tr.mapComps(a.T)
					return Term{app(ev.tr.maplenFun(cs[0]), app("select", ev.tr.get(ev.cur, cs[0], ev.tr.compSort[cs[0]]), a.S)), "Int", nil}
				}
			}
		}
		ev.fail("len of sort %s", a.Sort)
	case "cap":
		a := arg(0)
		if a.Sort == "Slice" {
			return Term{app("s_cap", a.S), "Int", nil}
		}
		ev.fail("cap of sort %s", a.Sort)
	case "ite":
		cnd, a, b := arg(0), arg(1), arg(2)
		if e.Args[1].Op == "nil" {
			a = ev.coerceNil(a, b.Sort)
		}
		if e.Args[2].Op == "nil" {
			b = ev.coerceNil(b, a.Sort)
		}
		if a.Sort != b.Sort {
			ev.fail("ite branches differ: %s vs %s", a.Sort, b.Sort)
		}
		return Term{app("ite", cnd.S, a.S, b.S), a.Sort, a.T}
	case "b2i":
		return Term{app("b2i", arg(0).S), "Int", nil}
	case "dyn":
		return Term{app("dyn", arg(0).S), "Int", nil}
	case "tid":
		return Term{c.tidByName(ev.strArg(e.Args[0])), "Int", nil}
	case "isType":
		return Term{app("=", app("dyn", arg(0).S), c.tidByName(ev.strArg(e.Args[1]))), "Bool", nil}
	case "pay":
		return Term{c.payload("Ref", arg(0).S), "Ref", nil}
	case "payval":
		return Term{c.payload("Val", arg(0).S), "Val", nil}
	case "payload":
		s, gt, err := c.specSort(ev.strArg(e.Args[1]))
		if err != nil {
			ev.fail("%v", err)
		}
		return Term{c.payload(s, arg(0).S), s, gt}
	case "box":
		// box(v, "GoType"): interface value holding v with the given dynamic type
		v := arg(0)
		c.ifaceCtor[v.Sort] = true
		return Term{app(q("mki:"+v.Sort), c.tidByName(ev.strArg(e.Args[1])), v.S), "Iface", nil}
	case "as":
		a := arg(0)
		gt := ev.tr.eng.LookupGoType(ev.strArg(e.Args[1]), c.home)
		if gt == nil {
			ev.fail("unknown Go type %q", e.Args[1].Name)
		}
		if c.sortOf(gt) != a.Sort {
			ev.fail("as(%s): sort %s does not fit %s", e.Args[0], a.Sort, c.sortOf(gt))
		}
		a.T = gt
		return a
	case "impl":
		name := ev.strArg(e.Args[1])
		return Term{app(c.declFun("impl:"+name, []Sort{"Int"}, "Bool"), app("dyn", arg(0).S)), "Bool", nil}
	case "implT":
		name := ev.strArg(e.Args[1])
		return Term{app(c.declFun("impl:"+name, []Sort{"Int"}, "Bool"), arg(0).S), "Bool", nil}
	case "allocated":
		return Term{app("<", app("allocT", arg(0).S), ev.tr.get(ev.cur, "$clock", "Int")), "Bool", nil}
	case "fresh":
		if ev.old == nil {
			ev.fail("fresh() needs an old state")
		}
		a := arg(0)
		return Term{and(app(">=", app("allocT", a.S), ev.tr.get(ev.old, "$clock", "Int")), not(app("=", a.S, "nilref"))), "Bool", nil}
	case "mkslice":
		return Term{app("mk_slice", arg(0).S, arg(1).S, arg(2).S, arg(3).S), "Slice", nil}
	case "eref_arr":
		return Term{app("eref_arr", arg(0).S), "Ref", nil}
	case "eref_idx":
		return Term{app("eref_idx", arg(0).S), "Int", nil}
	case "scat":
		f := c.declFun("scat", []Sort{"Str", "Str"}, "Str")
		return Term{app(f, arg(0).S, arg(1).S), "Str", types.Typ[types.String]}
	case "substr": // substr(s, lo, hi): the term the translation gives to the Go expression s[lo:hi]
		f := c.declFun("ssub", []Sort{"Str", "Int", "Int"}, "Str")
		return Term{app(f, arg(0).S, arg(1).S, arg(2).S), "Str", types.Typ[types.String]}
	case "selem":
		return Term{app("selem", arg(0).S, arg(1).S), "Ref", nil}
	case "eref":
		return Term{app("eref", arg(0).S, arg(1).S), "Ref", nil}
	case "allocT":
		return Term{app("allocT", arg(0).S), "Int", nil}
	case "sentval":
		// sentval(ch, k, "GoType"): the k-th value sent on ch (engine-maintained log)
		gt := ev.tr.eng.LookupGoType(ev.strArg(e.Args[2]), c.home)
		if gt == nil {
			ev.fail("unknown Go type %q", e.Args[2].Name)
		}
		vs := c.sortOf(gt)
		ls := "(Array Ref (Array Int " + vs + "))"
		lg := ev.tr.get(ev.cur, "G:sentlog_"+vs, ls)
		return Term{app("select", app("select", lg, arg(0).S), arg(1).S), vs, gt}
	case "cell":
		// cell(ref, "Sort"): the scalar stored at ref
		vs, gt, err := c.specSort(ev.strArg(e.Args[1]))
		if err != nil {
			ev.fail("%v", err)
		}
		return Term{app("select", ev.tr.get(ev.cur, "C:"+vs, "(Array Ref "+vs+")"), arg(0).S), vs, gt}
	case "global":
		// global("name"): current value of a package-level variable of the package under contract
		name := ev.strArg(e.Args[0])
		if c.home == nil {
			ev.fail("no home package")
		}
		gpkg := c.home
		if i := strings.LastIndex(name, "."); i >= 0 {
			if p, ok := ev.tr.eng.ByName[name[:i]]; ok {
				gpkg = p.Types
				name = name[i+1:]
			}
		}
		obj := gpkg.Scope().Lookup(name)
		if obj == nil {
			ev.fail("unknown package-level variable %q", name)
		}
		vs := c.sortOf(obj.Type())
		g := c.declConst("glob:"+gpkg.Path()+"."+name, "Ref")
		ev.tr.globalFact(g)
		return Term{app("select", ev.tr.get(ev.cur, "C:"+vs, "(Array Ref "+vs+")"), g), vs, obj.Type()}
	case "bitsof":
		// bitsof("I"): bit width of an integer type parameter
		bn := "bits:" + ev.strArg(e.Args[0])
		if !c.declared[q(bn)] {
			// a callee's contract speaks about its own type parameter: an unconstrained width here
			c.declConst(bn, "Int")
		}
		return Term{q(bn), "Int", nil}
	case "atloop":
		// atloop(N, e): e evaluated in the state at the header of enclosing loop N (this iteration of it)
		if e.Args[0].Op != "int" {
			ev.fail("atloop needs a literal loop ordinal")
		}
		var li *loopInfo
		for _, l := range ev.tr.loops {
			if fmt.Sprint(l.ord) == e.Args[0].Name {
				li = l
			}
		}
		if li == nil || li.hdrState == nil {
			ev.fail("atloop(%s): no such enclosing loop state", e.Args[0].Name)
		}
		n := *ev
		n.cur = li.hdrState
		hdr := li
		n.names = func(cx *evalCtx, name string) (Term, bool) {
			return ev.tr.resolveVarAt(name, hdr.header, -1, hdr.hdrState, nil)
		}
		return n.eval(e.Args[1])
	case "mhas", "mget":
		// mhas(m, k) / mget(m, k): presence and value of key k in the Go map m
		m, k := arg(0), arg(1)
		var mt *types.Map
		if m.T != nil {
			mt, _ = types.Unalias(m.T).Underlying().(*types.Map)
		}
		if mt == nil {
			ev.fail("%s: first argument is not a Go map", e.Name)
		}
		cs := ev.tr.mapComps(m.T)
		ks, vs := c.sortOf(mt.Key()), c.sortOf(mt.Elem())
		if k.Sort != ks {
			ev.fail("%s: key has sort %s, the map's keys have sort %s", e.Name, k.Sort, ks)
		}
		pres := and(not(app("=", m.S, "nilref")), app("select", app("select", ev.tr.get(ev.cur, cs[0], ev.tr.compSort[cs[0]]), m.S), k.S))
		if e.Name == "mhas" {
			return Term{pres, "Bool", nil}
		}
		return Term{app("select", app("select", ev.tr.get(ev.cur, cs[1], ev.tr.compSort[cs[1]]), m.S), k.S), vs, mt.Elem()}
	case "heap":
		// heap("dials.Dials.cbch") : the heap component as an array
		name := ev.strArg(e.Args[0])
		s, ok := ev.tr.compSort["H:"+name]
		if !ok {
			ev.fail("unknown heap component %s", name)
		}
		return Term{ev.tr.get(ev.cur, "H:"+name, s), s, nil}
	}
	if fd, ok := ev.tr.eng.Specs.FunIdx[e.Name]; ok {
		var args []Term
		for i := range e.Args {
			args = append(args, arg(i))
		}
		return ev.callSpecFun(fd, args)
	}
	ev.fail("unknown function %q", e.Name)
	return Term{}
}

func (ev *evalCtx) callSpecFun(fd *FunDecl, args []Term) Term {
	c := ev.tr.c
	if len(args) != len(fd.Params) {
		ev.fail("%s expects %d arguments, got %d", fd.Name, len(fd.Params), len(args))
	}
	if fd.Inline {
		saved := c.home
		if h := ev.tr.eng.homeOf(fd.Where); h != nil {
			c.home = h
		}
		defer func() { c.home = saved }()
		n := *ev
		n.env = map[string]Term{}
		n.names = nil
		n.bound = nil
		for i, a := range args {
			ps, gt, err := c.specSort(fd.Params[i].Sort)
			if err != nil {
				ev.fail("%v", err)
			}
			a = ev.coerceNil(a, ps)
			if a.Sort != ps {
				ev.fail("argument %d of %s has sort %s, want %s", i, fd.Name, a.Sort, ps)
			}
			if gt != nil {
				a.T = gt
			}
			n.env[fd.Params[i].Name] = a
		}
		r := n.eval(fd.Body)
		rs, gt, err := c.specSort(fd.Ret)
		if err != nil {
			ev.fail("%v", err)
		}
		r = ev.coerceNil(r, rs)
		if r.Sort != rs {
			ev.fail("macro %s yields sort %s, want %s", fd.Name, r.Sort, rs)
		}
		if gt != nil {
			r.T = gt
		}
		return r
	}
	ev.tr.c.useFun(fd.Name)
	var as []string
	for i, a := range args {
		ps, _, err := c.specSort(fd.Params[i].Sort)
		if err != nil {
			ev.fail("%v", err)
		}
		a = ev.coerceNil(a, ps)
		if a.Sort != ps {
			ev.fail("argument %d of %s has sort %s, want %s", i, fd.Name, a.Sort, ps)
		}
		as = append(as, a.S)
	}
	rs, gt, err := c.specSort(fd.Ret)
	if err != nil {
		ev.fail("%v", err)
	}
	return Term{app(q("f:"+fd.Name), as...), rs, gt}
}

func (c *smtCtx) useFun(name string) {
	c.usedFuns[name] = true
}

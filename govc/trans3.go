package govc

import (
	"fmt"
	"go/token"
	"go/types"
	"strings"

	"golang.org/x/tools/go/ssa"
)

func (tr *fnTrans) setVal(v ssa.Value, t Term) {
	t.T = v.Type()
	tr.vals[v] = t
}

func (tr *fnTrans) freshVal(v ssa.Value, why string) Term {
	s := tr.c.sortOf(v.Type())
	t := Term{tr.c.freshConst(v.Name()+"_"+why, s), s, v.Type()}
	tr.vals[v] = t
	tr.wf(t, v.Type())
	return t
}

func knownNonNil(v ssa.Value) bool {
	switch x := v.(type) {
	case *ssa.Alloc, *ssa.FieldAddr, *ssa.IndexAddr, *ssa.MakeChan, *ssa.MakeMap, *ssa.MakeClosure, *ssa.Function, *ssa.Global:
		return true
	case *ssa.Phi:
		_ = x
	}
	return false
}

func (tr *fnTrans) nilCheck(v ssa.Value, p token.Pos, what string) {
	if knownNonNil(v) {
		return
	}
	t := tr.val(v)
	if t.Sort != "Ref" {
		return
	}
	tr.oblige("nil", fmt.Sprintf("nil.%s#%d", what, tr.ord("nil."+what)), not(app("=", t.S, "nilref")), p, nil, "")
}

func (tr *fnTrans) instr(ins ssa.Instruction) {
	c := tr.c
	switch x := ins.(type) {
	case *ssa.DebugRef, *ssa.Phi:
		return
	case *ssa.Alloc:
		elem := x.Type().(*types.Pointer).Elem()
		if tr.isLifted(x) {
			tr.vals[x] = Term{"", "Ref", x.Type()}
			tr.store(tr.cur, tr.locOf(x), c.zero(elem))
			return
		}
		r := tr.newRef(x, x.Name()+"_"+x.Comment)
		l := tr.refLoc(r.S, elem, true)
		if arr, ok := types.Unalias(elem).Underlying().(*types.Array); ok {
			if arr.Len() <= 8 {
				for i := int64(0); i < arr.Len(); i++ {
					tr.store(tr.cur, tr.refLoc(app("eref", r.S, fmt.Sprint(i)), arr.Elem(), true), c.zero(arr.Elem()))
				}
			}
		} else {
			tr.store(tr.cur, l, c.zero(elem))
		}
	case *ssa.Store:
		if _, isF := x.Addr.(*ssa.FieldAddr); !isF {
			if _, isI := x.Addr.(*ssa.IndexAddr); !isI {
				tr.nilCheck(x.Addr, x.Pos(), "store")
			}
		}
		tr.store(tr.cur, tr.locOf(x.Addr), tr.val(x.Val))
	case *ssa.UnOp:
		tr.unop(x)
	case *ssa.BinOp:
		tr.setVal(x, tr.binop(x, tr.val(x.X), tr.val(x.Y), true))
	case *ssa.FieldAddr:
		// nil dereference happens here
		if _, lifted := x.X.(*ssa.Alloc); !lifted {
			if _, isF := x.X.(*ssa.FieldAddr); !isF {
				if _, isI := x.X.(*ssa.IndexAddr); !isI {
					tr.nilCheck(x.X, x.Pos(), "field")
				}
			}
		}
	case *ssa.IndexAddr:
		idx := tr.val(x.Index)
		switch u := types.Unalias(x.X.Type()).Underlying().(type) {
		case *types.Slice:
			s := tr.val(x.X)
			tr.oblige("bounds", fmt.Sprintf("bounds#%d", tr.ord("bounds")), and(app("<=", "0", idx.S), app("<", idx.S, app("s_len", s.S))), x.Pos(), nil, "")
		case *types.Pointer:
			arr := types.Unalias(u.Elem()).Underlying().(*types.Array)
			tr.nilCheck(x.X, x.Pos(), "index")
			if _, isC := x.Index.(*ssa.Const); !isC {
				tr.oblige("bounds", fmt.Sprintf("bounds#%d", tr.ord("bounds")), and(app("<=", "0", idx.S), app("<", idx.S, fmt.Sprint(arr.Len()))), x.Pos(), nil, "")
			}
		}
	case *ssa.Field:
		xv := tr.val(x.X)
		st, named, _ := derefStruct(x.X.Type())
		si := c.structSort(named)
		f := st.Field(x.Field)
		tr.setVal(x, Term{app(si.acc(f.Name()), xv.S), c.sortOf(f.Type()), f.Type()})
	case *ssa.Index:
		xv := tr.val(x.X)
		idx := tr.val(x.Index)
		if xv.Sort == "Str" {
			tr.oblige("bounds", fmt.Sprintf("bounds#%d", tr.ord("bounds")), and(app("<=", "0", idx.S), app("<", idx.S, app("slen", xv.S))), x.Pos(), nil, "")
			t := Term{app(c.declFun("sbyte", []Sort{"Str", "Int"}, "Int"), xv.S, idx.S), "Int", x.Type()}
			tr.setVal(x, t)
			tr.assume(and(app("<=", "0", t.S), app("<=", t.S, "255")))
			return
		}
		tr.unsupported("Index on %s", x.X.Type())
		tr.freshVal(x, "index")
	case *ssa.ChangeType:
		t := tr.val(x.X)
		tr.setVal(x, t)
	case *ssa.Convert:
		tr.setVal(x, tr.convert(x, tr.val(x.X)))
	case *ssa.MultiConvert:
		a := tr.val(x.X)
		ts := c.sortOf(x.Type())
		if a.Sort == "Int" && ts == "Int" {
			tr.useTypeParam(x.Type())
			tr.useTypeParam(x.X.Type())
			tr.setVal(x, Term{wrapInt(a.S, x.Type()), "Int", x.Type()})
		} else {
			tr.unsupported("multiconvert %s <- %s", x.Type(), x.X.Type())
			tr.freshVal(x, "multiconvert")
		}
	case *ssa.ChangeInterface:
		v := tr.val(x.X)
		ts := c.sortOf(x.Type())
		switch {
		case v.Sort == ts:
			tr.setVal(x, v)
		case v.Sort == "RType" && ts == "Iface":
			tr.setVal(x, Term{app(c.declFun("rtbox", []Sort{"RType"}, "Iface"), v.S), "Iface", x.Type()})
			tr.assume(app("=", app("=", v.S, "rt_nil"), app("=", tr.vals[x].S, "nil_iface")))
		case v.Sort == "Iface" && ts == "RType":
			tr.setVal(x, Term{app(c.declFun("rtunbox", []Sort{"Iface"}, "RType"), v.S), "RType", x.Type()})
		default:
			tr.unsupported("change interface %s <- %s", x.Type(), x.X.Type())
			tr.freshVal(x, "changeiface")
		}
	case *ssa.MakeInterface:
		xv := tr.val(x.X)
		if xv.Sort == "RType" {
			// reflect.Type value boxed in another interface
			tr.setVal(x, Term{c.mkIface(x.X.Type(), xv), "Iface", x.Type()})
			return
		}
		tr.setVal(x, Term{c.mkIface(x.X.Type(), xv), "Iface", x.Type()})
	case *ssa.TypeAssert:
		tr.typeAssert(x)
	case *ssa.Extract:
		ts, ok := tr.tuples[x.Tuple]
		if !ok {
			panic(fmt.Sprintf("extract from unknown tuple %s", x.Tuple.Name()))
		}
		tr.setVal(x, ts[x.Index])
	case *ssa.MakeClosure:
		r := tr.newRef(x, x.Name()+"_closure")
		_ = r
	case *ssa.MakeChan:
		r := tr.newRef(x, x.Name()+"_chan")
		size := tr.val(x.Size)
		tr.oblige("makechan", fmt.Sprintf("makechan.size#%d", tr.ord("makechan")), app("<=", "0", size.S), x.Pos(), nil, "")
		for _, g := range []struct{ n, v string }{{"chcap", size.S}, {"sent", "0"}, {"recvd", "0"}} {
			tr.set(tr.cur, "G:"+g.n, "(Array Ref Int)", app("store", tr.get(tr.cur, "G:"+g.n, "(Array Ref Int)"), r.S, g.v))
		}
		tr.set(tr.cur, "G:closed", "(Array Ref Bool)", app("store", tr.get(tr.cur, "G:closed", "(Array Ref Bool)"), r.S, "false"))
	case *ssa.MakeMap:
		r := tr.newRef(x, x.Name()+"_map")
		mt := types.Unalias(x.Type()).Underlying().(*types.Map)
		ks, vs := c.sortOf(mt.Key()), c.sortOf(mt.Elem())
		pc, vc := tr.mapCompNames(mt)
		tr.regComp(pc, "(Array Ref (Array "+ks+" Bool))")
		tr.regComp(vc, "(Array Ref (Array "+ks+" "+vs+"))")
		tr.set(tr.cur, pc, tr.compSort[pc], app("store", tr.get(tr.cur, pc, tr.compSort[pc]), r.S, "((as const (Array "+ks+" Bool)) false)"))
		tr.assume(app("=", app(tr.maplenFun(pc), "((as const (Array "+ks+" Bool)) false)"), "0"))
	case *ssa.MakeSlice:
		ln, cp := tr.val(x.Len), tr.val(x.Cap)
		tr.oblige("makeslice", fmt.Sprintf("makeslice.size#%d", tr.ord("makeslice")), and(app("<=", "0", ln.S), app("<=", ln.S, cp.S)), x.Pos(), nil, "")
		s := c.sortOf(x.Type())
		arr := tr.c.freshConst(x.Name()+"_arr", "Ref")
		tr.assume(and(not(app("=", arr, "nilref")), app("=", app("allocT", arr), tr.clock(tr.cur))))
		tr.set(tr.cur, "$clock", "Int", "(+ "+tr.clock(tr.cur)+" 1)")
		tr.vals[x] = Term{app("mk_slice", arr, "0", ln.S, cp.S), s, x.Type()}
		et := types.Unalias(x.Type()).Underlying().(*types.Slice).Elem()
		if !isStructType(et) {
			es := c.sortOf(et)
			cell := tr.get(tr.cur, "C:"+es, "(Array Ref "+es+")")
			tr.assume(fmt.Sprintf("(forall ((qv!i Int)) (! (= (select %s (eref %s qv!i)) %s) :pattern ((select %s (eref %s qv!i)))))", cell, arr, c.zeroOfSort(es, et), cell, arr))
		}
	case *ssa.Slice:
		tr.sliceOp(x)
	case *ssa.Lookup:
		tr.lookup(x)
	case *ssa.MapUpdate:
		tr.mapUpdate(x)
	case *ssa.Range:
		tr.vals[x] = Term{"", "Iter", x.Type()}
	case *ssa.Next:
		tr.next(x)
	case *ssa.Select:
		tr.selectOp(x)
	case *ssa.Send:
		tr.send(tr.val(x.Chan), x.Chan.Type(), tr.val(x.X), "true", x.Pos(), true)
	case *ssa.Go:
		tr.note("go statement: %s", x.Common().String())
		tr.goStmt(x)
	case *ssa.Defer:
		tr.defers = append(tr.defers, x)
		if tr.deferGuard == nil {
			tr.deferGuard = map[*ssa.Defer]string{}
		}
		tr.deferGuard[x] = tr.guard
	case *ssa.RunDefers:
		for i := len(tr.defers) - 1; i >= 0; i-- {
			d := tr.defers[i]
			if d.Block().Dominates(tr.curBlock) {
				tr.doCall(d, d.Common(), nil)
				continue
			}
			// a defer statement on a conditional path: it runs iff that statement was executed
			cond, ok := tr.deferGuard[d]
			if !ok {
				continue
			}
			pre := tr.cur.clone()
			saved := tr.guard
			g := tr.c.freshConst("g", "Bool")
			tr.asserts = append(tr.asserts, app("=", g, and(saved, cond)))
			tr.guard = g
			tr.doCall(d, d.Common(), nil)
			post := tr.cur
			merged := pre.clone()
			for _, comp := range tr.allComps() {
				a, b := tr.get(post, comp, tr.compSort[comp]), tr.get(pre, comp, tr.compSort[comp])
				if a != b {
					merged.comps[comp] = app("ite", cond, a, b)
				}
			}
			tr.cur = merged
			g2 := tr.c.freshConst("g", "Bool")
			tr.asserts = append(tr.asserts, app("=", g2, and(saved, imp(cond, tr.guard))))
			tr.guard = g2
		}
	case *ssa.Call:
		res := tr.doCall(x, x.Common(), x)
		sig := x.Common().Signature()
		switch sig.Results().Len() {
		case 0:
		case 1:
			tr.setVal(x, res[0])
		default:
			tr.tuples[x] = res
		}
	case *ssa.Panic:
		if tr.spec.Flags["panics_ok"] == "" {
			tr.oblige("panic", fmt.Sprintf("panic#%d", tr.ord("panic")), "false", x.Pos(), nil, "reachable panic statement")
		}
	case *ssa.Return:
		tr.doReturn(x)
	case *ssa.If:
		tr.finishBlock()
	case *ssa.Jump:
		tr.finishBlock()
	default:
		tr.unsupported("instruction %T", ins)
		if v, ok := ins.(ssa.Value); ok {
			tr.freshVal(v, "unsupported")
		}
	}
}

func (tr *fnTrans) newRef(v ssa.Value, name string) Term {
	r := Term{tr.c.freshConst(name, "Ref"), "Ref", v.Type()}
	tr.vals[v] = r
	tr.assume(and(not(app("=", r.S, "nilref")), app("=", app("allocT", r.S), tr.clock(tr.cur))))
	tr.set(tr.cur, "$clock", "Int", "(+ "+tr.clock(tr.cur)+" 1)")
	return r
}

func (tr *fnTrans) finishBlock() {
	b := tr.curBlock
	tr.blockOut[b] = tr.cur
	tr.outGuard[b] = tr.guard
	for _, s := range b.Succs {
		if !tr.backEdge[[2]int{b.Index, s.Index}] {
			continue
		}
		li := tr.hdrLoop[s]
		pidx := -1
		for i, p := range s.Preds {
			if p == b {
				pidx = i
			}
		}
		ov := map[ssa.Value]Term{}
		for _, ins := range s.Instrs {
			if ph, ok := ins.(*ssa.Phi); ok {
				ov[ph] = tr.val(ph.Edges[pidx])
			}
		}
		guard := and(tr.guard, tr.edgeCond(b, s))
		tr.checkInvariants(li, guard, tr.cur, ov, "preserved")
		tr.checkIterEnsures(li, guard, b, ov)
		if tr.spec.Flags["vacuity"] != "off" {
			name := fmt.Sprintf("vacuity.loop%d.backedge_reachable#%d", li.ord, tr.ord(fmt.Sprintf("vac.loop%d", li.ord)))
			tr.obls = append(tr.obls, &Obligation{Name: tr.key + "." + name, Func: tr.key, Kind: "vacuity", Label: name, Guard: guard, Goal: "false", Planted: true, Props: tr.props})
		}
	}
}

func (tr *fnTrans) unop(x *ssa.UnOp) {
	c := tr.c
	switch x.Op {
	case token.MUL:
		if _, isF := x.X.(*ssa.FieldAddr); !isF {
			if _, isI := x.X.(*ssa.IndexAddr); !isI {
				tr.nilCheck(x.X, x.Pos(), "load")
			}
		}
		l := tr.locOf(x.X)
		t := tr.load(tr.cur, l)
		tr.setVal(x, t)
		tr.wf(t, x.Type())
		// a reference read from a cell that existed at entry and still holds its entry content was itself
		// allocated before entry
		if (l.kind == locField || l.kind == locCell) && (t.Sort == "Ref" || t.Sort == "Slice") {
			cs := tr.compSort[l.comp]
			cur := tr.get(tr.cur, l.comp, cs)
			old := q(l.comp + "@0")
			ref := t.S
			if t.Sort == "Slice" {
				ref = app("s_arr", t.S)
			}
			tr.assume(imp(and(app("<", app("allocT", l.base), tr.clock(tr.entry)), app("=", app("select", cur, l.base), app("select", old, l.base))),
				app("<", app("allocT", ref), tr.clock(tr.entry))))
		}
	case token.NOT:
		tr.setVal(x, Term{not(tr.val(x.X).S), "Bool", x.Type()})
	case token.SUB:
		v := tr.val(x.X)
		if v.Sort == "Int" {
			tr.setVal(x, Term{wrapInt("(- "+v.S+")", x.Type()), "Int", x.Type()})
		} else {
			tr.setVal(x, Term{app(c.declFun("fneg", []Sort{v.Sort}, v.Sort), v.S), v.Sort, x.Type()})
		}
	case token.ARROW:
		tr.recv(x)
	case token.XOR:
		v := tr.val(x.X)
		tr.setVal(x, Term{app(c.declFun("bitnot", []Sort{"Int"}, "Int"), v.S), "Int", x.Type()})
	default:
		tr.unsupported("unary %s", x.Op)
		tr.freshVal(x, "unop")
	}
}

func (tr *fnTrans) binop(x *ssa.BinOp, a, b Term, obligations bool) Term {
	c := tr.c
	t := x.Type()
	switch x.Op {
	case token.EQL, token.NEQ:
		var s string
		if a.Sort != b.Sort {
			panic(fmt.Sprintf("comparison of sorts %s and %s", a.Sort, b.Sort))
		}
		s = app("=", a.S, b.S)
		if x.Op == token.NEQ {
			s = not(s)
		}
		return Term{s, "Bool", t}
	case token.LSS, token.LEQ, token.GTR, token.GEQ:
		op := map[token.Token]string{token.LSS: "<", token.LEQ: "<=", token.GTR: ">", token.GEQ: ">="}[x.Op]
		if a.Sort == "Int" {
			return Term{app(op, a.S, b.S), "Bool", t}
		}
		f := c.declFun("cmp"+op+":"+a.Sort, []Sort{a.Sort, b.Sort}, "Bool")
		return Term{app(f, a.S, b.S), "Bool", t}
	}
	if a.Sort == "Str" && x.Op == token.ADD {
		f := c.declFun("scat", []Sort{"Str", "Str"}, "Str")
		r := Term{app(f, a.S, b.S), "Str", t}
		tr.asserts = append(tr.asserts, app("=", app("slen", r.S), "(+ "+app("slen", a.S)+" "+app("slen", b.S)+")"))
		return r
	}
	if a.Sort == "Bool" {
		switch x.Op {
		case token.AND:
			return Term{and(a.S, b.S), "Bool", t}
		case token.OR:
			return Term{or(a.S, b.S), "Bool", t}
		}
	}
	if a.Sort != "Int" {
		f := c.declFun("fop"+x.Op.String()+":"+a.Sort, []Sort{a.Sort, b.Sort}, a.Sort)
		return Term{app(f, a.S, b.S), a.Sort, t}
	}
	switch x.Op {
	case token.ADD:
		return Term{wrapInt("(+ "+a.S+" "+b.S+")", t), "Int", t}
	case token.SUB:
		return Term{wrapInt("(- "+a.S+" "+b.S+")", t), "Int", t}
	case token.MUL:
		return Term{wrapInt("(* "+a.S+" "+b.S+")", t), "Int", t}
	case token.QUO, token.REM:
		if obligations {
			tr.oblige("div", fmt.Sprintf("div.nonzero#%d", tr.ord("div")), not(app("=", b.S, "0")), x.Pos(), nil, "")
		}
		// Go truncates toward zero
		qt := fmt.Sprintf("(let ((lv!a %s) (lv!b %s)) (ite (>= lv!a 0) (ite (> lv!b 0) (div lv!a lv!b) (- (div lv!a (- lv!b)))) (ite (> lv!b 0) (- (div (- lv!a) lv!b)) (div (- lv!a) (- lv!b)))))", a.S, b.S)
		if x.Op == token.QUO {
			return Term{wrapInt(qt, t), "Int", t}
		}
		return Term{fmt.Sprintf("(- %s (* %s %s))", a.S, b.S, qt), "Int", t}
	case token.SHL, token.SHR, token.AND, token.OR, token.XOR, token.AND_NOT:
		f := c.declFun("bit"+x.Op.String(), []Sort{"Int", "Int"}, "Int")
		r := Term{app(f, a.S, b.S), "Int", t}
		if lo, hi, ok := intRange(t); ok {
			tr.asserts = append(tr.asserts, and(app("<=", lo, r.S), app("<=", r.S, hi)))
		}
		return r
	}
	panic("binop " + x.Op.String())
}

func (tr *fnTrans) convert(x *ssa.Convert, a Term) Term {
	c := tr.c
	to := x.Type()
	ts := c.sortOf(to)
	if a.Sort == "Int" && ts == "Int" {
		lo1, hi1, _ := intRange(x.X.Type())
		lo2, hi2, _ := intRange(to)
		if lo1 == lo2 && hi1 == hi2 {
			return Term{a.S, "Int", to}
		}
		return Term{wrapInt(a.S, to), "Int", to}
	}
	if a.Sort == ts && ts != "Str" && ts != "Slice" {
		return Term{a.S, ts, to}
	}
	if a.Sort == ts {
		// string <-> named string, slice <-> named slice
		return Term{a.S, ts, to}
	}
	f := c.declFun("conv:"+TypeString(x.X.Type())+">"+TypeString(to), []Sort{a.Sort}, ts)
	r := Term{app(f, a.S), ts, to}
	if lo, hi, ok := intRange(to); ok {
		tr.asserts = append(tr.asserts, and(app("<=", lo, r.S), app("<=", r.S, hi)))
	}
	return r
}

func (tr *fnTrans) typeAssert(x *ssa.TypeAssert) {
	c := tr.c
	xv := tr.val(x.X)
	at := x.AssertedType
	var ok string
	var v Term
	if xv.Sort == "RType" {
		tr.unsupported("type assertion on reflect.Type")
		tr.freshVal(x, "ta")
		return
	}
	if types.IsInterface(at) {
		ok = and(not(app("=", xv.S, "nil_iface")), app(c.implPred(at), app("dyn", xv.S)))
		if it, isI := at.Underlying().(*types.Interface); isI && it.NumMethods() == 0 {
			ok = not(app("=", xv.S, "nil_iface"))
		}
		v = Term{xv.S, "Iface", at}
		if c.sortOf(at) == "RType" {
			tr.unsupported("type assertion to reflect.Type")
		}
	} else {
		ok = app("=", app("dyn", xv.S), c.tid(at))
		s := c.sortOf(at)
		v = Term{c.payload(s, xv.S), s, at}
	}
	if x.CommaOk {
		okc := tr.c.freshConst(x.Name()+"_ok", "Bool")
		tr.asserts = append(tr.asserts, app("=", okc, ok))
		// value is the zero value when !ok
		val := Term{app("ite", okc, v.S, c.zeroOfSort(v.Sort, at)), v.Sort, at}
		tr.tuples[x] = []Term{val, {okc, "Bool", types.Typ[types.Bool]}}
		return
	}
	tr.oblige("typeassert", fmt.Sprintf("typeassert#%d", tr.ord("typeassert")), ok, x.Pos(), nil, "")
	tr.setVal(x, v)
	tr.wf(v, at)
}

func (tr *fnTrans) sliceOp(x *ssa.Slice) {
	c := tr.c
	xv := tr.val(x.X)
	lo := "0"
	if x.Low != nil {
		lo = tr.val(x.Low).S
	}
	switch u := types.Unalias(x.X.Type()).Underlying().(type) {
	case *types.Slice:
		hi := app("s_len", xv.S)
		if x.High != nil {
			hi = tr.val(x.High).S
		}
		mx := app("s_cap", xv.S)
		if x.Max != nil {
			mx = tr.val(x.Max).S
			tr.oblige("slice", fmt.Sprintf("slice.bounds#%d", tr.ord("slice")), and(app("<=", "0", lo), app("<=", lo, hi), app("<=", hi, mx), app("<=", mx, app("s_cap", xv.S))), x.Pos(), nil, "")
		} else {
			tr.oblige("slice", fmt.Sprintf("slice.bounds#%d", tr.ord("slice")), and(app("<=", "0", lo), app("<=", lo, hi), app("<=", hi, mx)), x.Pos(), nil, "")
		}
		tr.setVal(x, Term{app("mk_slice", app("s_arr", xv.S), "(+ "+app("s_off", xv.S)+" "+lo+")", "(- "+hi+" "+lo+")", "(- "+mx+" "+lo+")"), "Slice", x.Type()})
	case *types.Basic: // string
		hi := app("slen", xv.S)
		if x.High != nil {
			hi = tr.val(x.High).S
		}
		tr.oblige("slice", fmt.Sprintf("slice.bounds#%d", tr.ord("slice")), and(app("<=", "0", lo), app("<=", lo, hi), app("<=", hi, app("slen", xv.S))), x.Pos(), nil, "")
		f := c.declFun("ssub", []Sort{"Str", "Int", "Int"}, "Str")
		r := Term{app(f, xv.S, lo, hi), "Str", x.Type()}
		tr.setVal(x, r)
		tr.assume(app("=", app("slen", r.S), "(- "+hi+" "+lo+")"))
	case *types.Pointer:
		arr := types.Unalias(u.Elem()).Underlying().(*types.Array)
		tr.nilCheck(x.X, x.Pos(), "slice")
		n := fmt.Sprint(arr.Len())
		hi := n
		if x.High != nil {
			hi = tr.val(x.High).S
		}
		if x.Low != nil || x.High != nil {
			tr.oblige("slice", fmt.Sprintf("slice.bounds#%d", tr.ord("slice")), and(app("<=", "0", lo), app("<=", lo, hi), app("<=", hi, n)), x.Pos(), nil, "")
		}
		base := tr.locOf(x.X).base
		tr.setVal(x, Term{app("mk_slice", base, lo, "(- "+hi+" "+lo+")", "(- "+n+" "+lo+")"), "Slice", x.Type()})
	default:
		tr.unsupported("slice of %s", x.X.Type())
		tr.freshVal(x, "slice")
	}
}

// ---------------------------------------------------------------- maps

func (tr *fnTrans) mapCompNames(mt *types.Map) (string, string) {
	k := TypeString(mt.Key()) + ">" + TypeString(mt.Elem())
	return "MP:" + k, "MV:" + k
}

func (tr *fnTrans) mapComps(t types.Type) []string {
	mt, ok := types.Unalias(t).Underlying().(*types.Map)
	if !ok {
		return nil
	}
	ks, vs := tr.c.sortOf(mt.Key()), tr.c.sortOf(mt.Elem())
	pc, vc := tr.mapCompNames(mt)
	tr.regComp(pc, "(Array Ref (Array "+ks+" Bool))")
	tr.regComp(vc, "(Array Ref (Array "+ks+" "+vs+"))")
	return []string{pc, vc}
}

// maplenFun declares the cardinality function of a map's key set (one per map type).
func (tr *fnTrans) maplenFun(presComp string) string {
	return tr.c.declFun("maplen:"+presComp, []Sort{strings.TrimSuffix(strings.TrimPrefix(tr.compSort[presComp], "(Array Ref "), ")")}, "Int")
}

func (tr *fnTrans) lookup(x *ssa.Lookup) {
	c := tr.c
	mt, ok := types.Unalias(x.X.Type()).Underlying().(*types.Map)
	if !ok {
		tr.unsupported("Lookup on %s", x.X.Type())
		tr.freshVal(x, "lookup")
		return
	}
	cs := tr.mapComps(x.X.Type())
	m := tr.val(x.X)
	k := tr.val(x.Index)
	pres := app("select", app("select", tr.get(tr.cur, cs[0], tr.compSort[cs[0]]), m.S), k.S)
	pres = and(not(app("=", m.S, "nilref")), pres)
	vs := c.sortOf(mt.Elem())
	v := app("ite", pres, app("select", app("select", tr.get(tr.cur, cs[1], tr.compSort[cs[1]]), m.S), k.S), c.zeroOfSort(vs, mt.Elem()))
	if x.CommaOk {
		tr.tuples[x] = []Term{{v, vs, mt.Elem()}, {pres, "Bool", types.Typ[types.Bool]}}
		return
	}
	tr.setVal(x, Term{v, vs, mt.Elem()})
}

func (tr *fnTrans) mapUpdate(x *ssa.MapUpdate) {
	cs := tr.mapComps(x.Map.Type())
	m := tr.val(x.Map)
	k := tr.val(x.Key)
	v := tr.val(x.Value)
	tr.oblige("nil", fmt.Sprintf("nil.mapassign#%d", tr.ord("nil.mapassign")), not(app("=", m.S, "nilref")), x.Pos(), nil, "assignment to entry in nil map")
	p := tr.get(tr.cur, cs[0], tr.compSort[cs[0]])
	oldSet := app("select", p, m.S)
	newSet := app("store", oldSet, k.S, "true")
	// cardinality of the key set (len of the map): one more exactly when the key is new
	ml := tr.maplenFun(cs[0])
	tr.assume(app("=", app(ml, newSet), "(+ "+app(ml, oldSet)+" "+app("ite", app("select", oldSet, k.S), "0", "1")+")"))
	tr.set(tr.cur, cs[0], tr.compSort[cs[0]], app("store", p, m.S, newSet))
	vv := tr.get(tr.cur, cs[1], tr.compSort[cs[1]])
	tr.set(tr.cur, cs[1], tr.compSort[cs[1]], app("store", vv, m.S, app("store", app("select", vv, m.S), k.S, v.S)))
}

func (tr *fnTrans) next(x *ssa.Next) {
	c := tr.c
	rng := x.Iter.(*ssa.Range)
	okc := Term{tr.c.freshConst(x.Name()+"_ok", "Bool"), "Bool", types.Typ[types.Bool]}
	if x.IsString {
		s := tr.val(rng.X)
		k := Term{tr.c.freshConst(x.Name()+"_k", "Int"), "Int", types.Typ[types.Int]}
		runeAt := c.declFun("runeAt", []Sort{"Str", "Int"}, "Int")
		rsizeAt := c.declFun("rsizeAt", []Sort{"Str", "Int"}, "Int")
		r := Term{app(runeAt, s.S, k.S), "Int", types.Typ[types.Rune]}
		sz := app(rsizeAt, s.S, k.S)
		tr.assume(imp(okc.S, and(app("<=", "0", k.S), app("<", k.S, app("slen", s.S)), app("<=", "0", r.S), app("<=", r.S, "1114111"),
			app("<=", "1", sz), app("<=", sz, "4"), app("<=", "(+ "+k.S+" "+sz+")", app("slen", s.S)))))
		tr.tuples[x] = []Term{okc, k, r}
		return
	}
	mt := types.Unalias(rng.X.Type()).Underlying().(*types.Map)
	cs := tr.mapComps(rng.X.Type())
	m := tr.val(rng.X)
	ks, vs := c.sortOf(mt.Key()), c.sortOf(mt.Elem())
	k := Term{tr.c.freshConst(x.Name()+"_k", ks), ks, mt.Key()}
	pres := app("select", app("select", tr.get(tr.cur, cs[0], tr.compSort[cs[0]]), m.S), k.S)
	tr.assume(imp(okc.S, and(not(app("=", m.S, "nilref")), pres)))
	v := Term{app("select", app("select", tr.get(tr.cur, cs[1], tr.compSort[cs[1]]), m.S), k.S), vs, mt.Elem()}
	tr.tuples[x] = []Term{okc, k, v}
}

// ---------------------------------------------------------------- channels

func (tr *fnTrans) chanSpec(t types.Type) *ChanSpec {
	ct, ok := types.Unalias(t).Underlying().(*types.Chan)
	if !ok {
		return nil
	}
	key := TypeString(ct.Elem())
	for _, cs := range tr.eng.Specs.Chans {
		if cs.Key == key {
			return cs
		}
	}
	return nil
}

func (tr *fnTrans) chanElem(t types.Type) types.Type {
	return types.Unalias(t).Underlying().(*types.Chan).Elem()
}

// send models `ch <- v` taken under condition cond (select case) or unconditionally.
func (tr *fnTrans) send(ch Term, cht types.Type, v Term, cond string, p token.Pos, blocking bool) {
	if cs := tr.chanSpec(cht); cs != nil {
		saved := tr.c.home
		if h := tr.eng.homeOf(cs.Where); h != nil {
			tr.c.home = h
		}
		defer func() { tr.c.home = saved }()
	}
	n := tr.ord("send")
	saved := tr.guard
	if cond != "true" {
		g := tr.c.freshConst("g", "Bool")
		tr.asserts = append(tr.asserts, app("=", g, and(tr.guard, cond)))
		tr.guard = g
	}
	if blocking {
		tr.oblige("send", fmt.Sprintf("send.nonnil#%d", n), not(app("=", ch.S, "nilref")), p, nil, "send on nil channel blocks forever")
	}
	closed := tr.get(tr.cur, "G:closed", "(Array Ref Bool)")
	tr.oblige("send", fmt.Sprintf("send.open#%d", n), not(app("select", closed, ch.S)), p, nil, "send on closed channel panics")
	sent := tr.get(tr.cur, "G:sent", "(Array Ref Int)")
	if blocking && tr.nonblocking {
		capc := tr.get(tr.cur, "G:chcap", "(Array Ref Int)")
		tr.oblige("send", fmt.Sprintf("send.nonblocking#%d", n), app("<", app("select", sent, ch.S), app("select", capc, ch.S)), p, nil, "blocking send in a non-blocking function")
	}
	if cs := tr.chanSpec(cht); cs != nil {
		ev := &evalCtx{tr: tr, env: map[string]Term{cs.Var: {v.S, v.Sort, tr.chanElem(cht)}}, cur: tr.cur, old: tr.cur}
		for i, inv := range cs.Invs {
			s, err := ev.EvalBool(inv.E)
			if err != nil {
				panic(evalErr{fmt.Sprintf("chantype %s inv %d: %v", cs.Key, i, err)})
			}
			label := inv.Label
			if label == "" {
				label = fmt.Sprint(i)
			}
			tr.oblige("send", fmt.Sprintf("send.inv.%s#%d", label, n), s, p, tr.propsOfLabel(inv.Label), inv.Src)
		}
	}
	if cs := tr.chanSpec(cht); cs != nil && len(cs.OnSend) > 0 {
		ev := &evalCtx{tr: tr, env: map[string]Term{cs.Var: {v.S, v.Sort, tr.chanElem(cht)}}, cur: tr.cur, old: tr.cur}
		for _, g := range cs.OnSend {
			if cond != "true" {
				// conditional update: new = ite(cond, updated, old)
				gd := tr.eng.Specs.GhostIx[g.Name]
				if gd == nil {
					panic(evalErr{fmt.Sprintf("%s: unknown ghost %q", g.Where, g.Name)})
				}
				gs, _, _ := tr.c.specSort(gd.Sort)
				before := tr.get(tr.cur, "G:"+g.Name, gs)
				ev.cur = tr.cur
				tr.applyGhost(g, ev)
				after := tr.get(tr.cur, "G:"+g.Name, gs)
				tr.set(tr.cur, "G:"+g.Name, gs, app("ite", cond, after, before))
			} else {
				ev.cur = tr.cur
				tr.applyGhost(g, ev)
			}
		}
	}
	// per-channel log of sent values (ghost)
	{
		ls := "(Array Ref (Array Int " + v.Sort + "))"
		lc := "G:sentlog_" + v.Sort
		lg := tr.get(tr.cur, lc, ls)
		nl := app("store", lg, ch.S, app("store", app("select", lg, ch.S), app("select", sent, ch.S), v.S))
		if cond != "true" {
			nl = app("ite", cond, nl, lg)
		}
		tr.set(tr.cur, lc, ls, nl)
	}
	{
		ts := "(Array Ref (Array Int Int))"
		tt := tr.get(tr.cur, "G:senttime", ts)
		ec := tr.get(tr.cur, "G:evclock", "Int")
		nt := app("store", tt, ch.S, app("store", app("select", tt, ch.S), app("select", sent, ch.S), ec))
		ne := "(+ " + ec + " 1)"
		if cond != "true" {
			nt = app("ite", cond, nt, tt)
			ne = app("ite", cond, ne, ec)
		}
		tr.set(tr.cur, "G:senttime", ts, nt)
		tr.set(tr.cur, "G:evclock", "Int", ne)
	}
	if cond == "true" {
		tr.set(tr.cur, "G:sent", "(Array Ref Int)", app("store", sent, ch.S, "(+ "+app("select", sent, ch.S)+" 1)"))
	} else {
		tr.set(tr.cur, "G:sent", "(Array Ref Int)", app("ite", cond, app("store", sent, ch.S, "(+ "+app("select", sent, ch.S)+" 1)"), sent))
		// the guard strengthening applies only under cond
		g := tr.c.freshConst("g", "Bool")
		tr.asserts = append(tr.asserts, app("=", g, and(saved, imp(cond, tr.guard))))
		tr.guard = g
	}
}

// recvValue yields a fresh received value constrained by the channel's invariant.
func (tr *fnTrans) recvValue(name string, cht types.Type, cond string, ch string) Term {
	if cs := tr.chanSpec(cht); cs != nil {
		saved := tr.c.home
		if h := tr.eng.homeOf(cs.Where); h != nil {
			tr.c.home = h
		}
		defer func() { tr.c.home = saved }()
	}
	et := tr.chanElem(cht)
	s := tr.c.sortOf(et)
	v := Term{tr.c.freshConst(name, s), s, et}
	saved := tr.guard
	if cond != "true" {
		g := tr.c.freshConst("g", "Bool")
		tr.asserts = append(tr.asserts, app("=", g, and(tr.guard, cond)))
		tr.guard = g
	}
	tr.wf(v, et)
	if cs := tr.chanSpec(cht); cs != nil {
		ev := &evalCtx{tr: tr, env: map[string]Term{cs.Var: v}, cur: tr.cur, old: tr.cur}
		for i, inv := range cs.Invs {
			sx, err := ev.EvalBool(inv.E)
			if err != nil {
				panic(evalErr{fmt.Sprintf("chantype %s inv %d: %v", cs.Key, i, err)})
			}
			tr.assume(sx)
		}
		for i, inv := range cs.Relys {
			sx, err := ev.EvalBool(inv.E)
			if err != nil {
				panic(evalErr{fmt.Sprintf("chantype %s rely %d: %v", cs.Key, i, err)})
			}
			tr.assume(sx)
			tr.c.trusted["channel-rely:"+cs.Key+":"+inv.Label] = true
		}
		tr.c.trusted["channel-invariant-stability:"+cs.Key] = true
		tr.guard = saved
		for _, g := range cs.OnRecv {
			gd := tr.eng.Specs.GhostIx[g.Name]
			if gd == nil {
				panic(evalErr{fmt.Sprintf("%s: unknown ghost %q", g.Where, g.Name)})
			}
			gs, _, _ := tr.c.specSort(gd.Sort)
			before := tr.get(tr.cur, "G:"+g.Name, gs)
			ev.cur = tr.cur
			tr.applyGhost(g, ev)
			if cond != "true" {
				after := tr.get(tr.cur, "G:"+g.Name, gs)
				tr.set(tr.cur, "G:"+g.Name, gs, app("ite", cond, after, before))
			}
		}
	}
	tr.guard = saved
	if ch != "" {
		ls := "(Array Ref (Array Int " + v.Sort + "))"
		lc := "G:recvlog_" + v.Sort
		lg := tr.get(tr.cur, lc, ls)
		recvd := tr.get(tr.cur, "G:recvd", "(Array Ref Int)")
		nl := app("store", lg, ch, app("store", app("select", lg, ch), app("select", recvd, ch), v.S))
		if cond != "true" {
			nl = app("ite", cond, nl, lg)
		}
		tr.set(tr.cur, lc, ls, nl)
	}
	return v
}

func (tr *fnTrans) recv(x *ssa.UnOp) {
	ch := tr.val(x.X)
	if tr.nonblocking {
		tr.oblige("recv", fmt.Sprintf("recv.nonblocking#%d", tr.ord("recv")), "false", x.Pos(), nil, "blocking receive in a non-blocking function")
	}
	if tr.spec.Flags["ctx_guarded"] != "" {
		// an API function that promises to honour its context may not park in a bare receive
		tr.oblige("recv", fmt.Sprintf("recv.ctx_guarded#%d", tr.ord("recv.ctx")), "false", x.Pos(), tr.propsAndSafety(), "blocking receive outside a select with a ctx.Done() case")
	}
	recvd := tr.get(tr.cur, "G:recvd", "(Array Ref Int)")
	if x.CommaOk {
		okc := Term{tr.c.freshConst(x.Name()+"_ok", "Bool"), "Bool", types.Typ[types.Bool]}
		v := tr.recvValue(x.Name()+"_recv", x.X.Type(), okc.S, ch.S)
		closed := tr.get(tr.cur, "G:closed", "(Array Ref Bool)")
		tr.assume(imp(not(okc.S), app("select", closed, ch.S)))
		zero := tr.c.zeroOfSort(v.Sort, v.T)
		tr.tuples[x] = []Term{{app("ite", okc.S, v.S, zero), v.Sort, v.T}, okc}
		tr.set(tr.cur, "G:recvd", "(Array Ref Int)", app("ite", okc.S, app("store", recvd, ch.S, "(+ "+app("select", recvd, ch.S)+" 1)"), recvd))
		return
	}
	v := tr.recvValue(x.Name()+"_recv", x.X.Type(), "true", ch.S)
	tr.setVal(x, v)
	tr.set(tr.cur, "G:recvd", "(Array Ref Int)", app("store", recvd, ch.S, "(+ "+app("select", recvd, ch.S)+" 1)"))
}

// propsAndSafety: the function's own properties together with its safety properties
func (tr *fnTrans) propsAndSafety() []string {
	seen := map[string]bool{}
	var u []string
	for _, p := range append(append([]string{}, tr.props...), tr.spec.Safety...) {
		if !seen[p] {
			seen[p] = true
			u = append(u, p)
		}
	}
	return u
}

func (tr *fnTrans) selectOp(x *ssa.Select) {
	n := tr.ord("select")
	idx := Term{tr.c.freshConst(x.Name()+"_idx", "Int"), "Int", types.Typ[types.Int]}
	lo := "0"
	if !x.Blocking {
		lo = "(- 1)"
	}
	tr.assume(and(app("<=", lo, idx.S), app("<", idx.S, fmt.Sprint(len(x.States)))))
	if x.Blocking && tr.nonblocking {
		exempt := false
		for _, f := range strings.Fields(tr.spec.Flags["blocking_select_ok"]) {
			if f == fmt.Sprint(n) {
				exempt = true
			}
		}
		if !exempt {
			tr.oblige("select", fmt.Sprintf("select.nonblocking#%d", n), "false", x.Pos(), nil, "blocking select in a non-blocking function")
		}
	}
	if x.Blocking && tr.spec.Flags["ctx_guarded"] != "" {
		// every blocking select of an API function must have a <-ctx.Done() case
		has := false
		for _, st := range x.States {
			if st.Dir == types.RecvOnly {
				if call, ok := st.Chan.(*ssa.Call); ok && call.Common().IsInvoke() && call.Common().Method.Name() == "Done" {
					has = true
				}
			}
		}
		g := "true"
		if !has {
			g = "false"
		}
		tr.oblige("select", fmt.Sprintf("select.ctx_guarded#%d", n), g, x.Pos(), tr.propsAndSafety(), "blocking select without a ctx.Done() case")
	}
	okc := Term{tr.c.freshConst(x.Name()+"_recvok", "Bool"), "Bool", types.Typ[types.Bool]}
	res := []Term{idx, okc}
	for i, st := range x.States {
		cond := app("=", idx.S, fmt.Sprint(i))
		ch := tr.val(st.Chan)
		if st.Dir == types.SendOnly {
			// a nil channel's case is never chosen
			tr.assume(imp(cond, not(app("=", ch.S, "nilref"))))
			tr.send(ch, st.Chan.Type(), tr.val(st.Send), cond, st.Pos, false)
		} else {
			v := tr.recvValue(fmt.Sprintf("%s_recv%d", x.Name(), i), st.Chan.Type(), cond, ch.S)
			tr.assume(imp(cond, not(app("=", ch.S, "nilref"))))
			recvd := tr.get(tr.cur, "G:recvd", "(Array Ref Int)")
			tr.set(tr.cur, "G:recvd", "(Array Ref Int)", app("ite", cond, app("store", recvd, ch.S, "(+ "+app("select", recvd, ch.S)+" 1)"), recvd))
			closed := tr.get(tr.cur, "G:closed", "(Array Ref Bool)")
			tr.assume(imp(and(cond, not(okc.S)), app("select", closed, ch.S)))
			res = append(res, v)
		}
	}
	tr.tuples[x] = res
}

func (tr *fnTrans) closeChan(ch Term, p token.Pos) {
	n := tr.ord("close")
	tr.oblige("close", fmt.Sprintf("close.nonnil#%d", n), not(app("=", ch.S, "nilref")), p, nil, "close of nil channel panics")
	closed := tr.get(tr.cur, "G:closed", "(Array Ref Bool)")
	tr.oblige("close", fmt.Sprintf("close.open#%d", n), not(app("select", closed, ch.S)), p, nil, "close of closed channel panics")
	tr.set(tr.cur, "G:closed", "(Array Ref Bool)", app("store", closed, ch.S, "true"))
}

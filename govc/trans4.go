package govc

import (
	"fmt"
	"go/ast"
	"go/token"
	"go/types"
	"sort"
	"strings"

	"golang.org/x/tools/go/ssa"
)

// specForCall finds the contract that governs a call, and a display name for the callee.
func (tr *fnTrans) specForCall(cc *ssa.CallCommon) (*FuncSpec, string) {
	if cc.IsInvoke() {
		name := TypeString(cc.Value.Type()) + "." + cc.Method.Name()
		if sp, ok := tr.eng.Specs.Funcs["iface:"+name]; ok {
			return sp, name
		}
		// embedded interface methods: try the method's defining interface
		if recv := cc.Method.Type().(*types.Signature).Recv(); recv != nil {
			n2 := TypeString(recv.Type()) + "." + cc.Method.Name()
			if sp, ok := tr.eng.Specs.Funcs["iface:"+n2]; ok {
				return sp, n2
			}
		}
		return nil, name
	}
	if callee := cc.StaticCallee(); callee != nil {
		key := FuncKey(callee)
		if callee.Origin() != nil {
			key = FuncKey(callee.Origin())
		}
		if sp, ok := tr.eng.Specs.Funcs["func:"+key]; ok {
			return sp, key
		}
		return nil, key
	}
	// dynamic call through a function value
	name := TypeString(cc.Value.Type())
	if sp, ok := tr.eng.Specs.Funcs["functype:"+name]; ok {
		return sp, name
	}
	return nil, name
}

func shortCallee(name string) string {
	// dials.(*Dials).submitEvent -> submitEvent ; reflect.(Value).Kind -> Value.Kind
	if i := strings.Index(name, ")."); i >= 0 {
		recv := name[:i]
		if j := strings.LastIndexAny(recv, "(*"); j >= 0 {
			recv = recv[j+1:]
		}
		return recv + "." + name[i+2:]
	}
	return name
}

func (tr *fnTrans) calleeMods(cc *ssa.CallCommon) ([]string, bool) {
	if _, isB := cc.Value.(*ssa.Builtin); isB && !cc.IsInvoke() {
		b := cc.Value.(*ssa.Builtin)
		switch b.Name() {
		case "close":
			return []string{"G:closed"}, false
		case "append", "copy":
			var out []string
			if sl, ok := types.Unalias(cc.Args[0].Type()).Underlying().(*types.Slice); ok {
				m := map[string]bool{}
				tr.compsOfLoc(tr.refLoc("x", sl.Elem(), true), m)
				for k := range m {
					out = append(out, k)
				}
			}
			return out, false
		case "delete":
			return tr.mapComps(cc.Args[0].Type()), false
		}
		return nil, false
	}
	sp, _ := tr.specForCall(cc)
	if sp == nil {
		return nil, true
	}
	if sp.ModAll {
		return nil, true
	}
	return tr.specMods(sp), false
}

// keyedMods evaluates the `Comp@obj` entries of a modifies clause: component -> object keys.  A component
// that also has an unkeyed entry is not returned (it may change everywhere).
func (tr *fnTrans) keyedMods(sp *FuncSpec, ev *evalCtx) map[string][]string {
	out := map[string][]string{}
	whole := map[string]bool{}
	for _, m := range sp.Modifies {
		optional := strings.HasPrefix(m, "?")
		if optional {
			m = m[1:]
		}
		i := strings.Index(m, "@")
		if optional && i < 0 {
			if cn, err := tr.compForModifies(m); err == nil {
				whole[cn] = true
			}
			continue
		}
		if optional {
			if _, err := tr.compForModifies(m[:i]); err != nil {
				continue
			}
		}
		if i < 0 {
			if !strings.HasPrefix(m, "rec_") {
				if cn, err := tr.compForModifies(m); err == nil {
					whole[cn] = true
				}
			}
			continue
		}
		cn, err := tr.compForModifies(m[:i])
		if err != nil {
			panic(evalErr{fmt.Sprintf("%s: %v", sp.Where, err)})
		}
		ke, err := ParseExpr(m[i+1:])
		if err != nil {
			panic(evalErr{fmt.Sprintf("%s: %v", sp.Where, err)})
		}
		kt, err := ev.Eval(ke)
		if err != nil {
			panic(evalErr{fmt.Sprintf("%s: modifies key: %v", sp.Where, err)})
		}
		out[cn] = append(out[cn], kt.S)
	}
	for cn := range whole {
		delete(out, cn)
	}
	return out
}

// specMods lists the components a contract allows its function to modify: the modifies clause
// (rec_<name> stands for every call-record ghost of <name>) plus the function's own call record.
func (tr *fnTrans) specMods(sp *FuncSpec) []string {
	var out []string
	seen := map[string]bool{}
	add := func(cn string) {
		if !seen[cn] {
			seen[cn] = true
			out = append(out, cn)
		}
	}
	addRec := func(name string) {
		pre := "G:rec_" + name + "_"
		for cn := range tr.known {
			if strings.HasPrefix(cn, pre) {
				tr.regComp(cn, tr.known[cn])
				add(cn)
			}
		}
		for cn := range tr.compSort {
			if strings.HasPrefix(cn, pre) {
				add(cn)
			}
		}
	}
	for _, m := range sp.Modifies {
		if i := strings.Index(m, "@"); i >= 0 {
			m = m[:i]
		}
		if strings.HasPrefix(m, "rec_") {
			addRec(m[4:])
			continue
		}
		if strings.HasPrefix(m, "maps:") {
			// maps:Type.field : the contents of every Go map of that field's type
			name := m[5:]
			i := strings.LastIndex(name, ".")
			var ft types.Type
			if i > 0 {
				if t := tr.eng.LookupGoType(name[:i], tr.c.home); t != nil {
					if st, _, _ := derefStruct(t); st != nil {
						if f := findField(st, name[i+1:]); f != nil {
							ft = f.Type()
						}
					}
				}
			}
			cs := tr.mapComps(ft)
			if ft == nil || cs == nil {
				panic(evalErr{fmt.Sprintf("%s: modifies %s: not a map-typed field", sp.Where, m)})
			}
			for _, cn := range cs {
				add(cn)
			}
			continue
		}
		if strings.HasPrefix(m, "?") {
			// optional entry: a component of a package that may not be loaded in this check
			cn, err := tr.compForModifies(m[1:])
			if err == nil {
				add(cn)
			}
			continue
		}
		cn, err := tr.compForModifies(m)
		if err != nil {
			panic(evalErr{fmt.Sprintf("%s: %v", sp.Where, err)})
		}
		add(cn)
	}
	if name := sp.Flags["record"]; name != "" {
		addRec(name)
	}
	sort.Strings(out)
	return out
}

// doCall translates a call; res is the list of result terms.
func (tr *fnTrans) doCall(ins ssa.Instruction, cc *ssa.CallCommon, asVal ssa.Value) []Term {
	if b, ok := cc.Value.(*ssa.Builtin); ok && !cc.IsInvoke() {
		return tr.builtin(b, cc, ins, asVal)
	}
	var args []Term
	if cc.IsInvoke() {
		args = append(args, tr.val(cc.Value))
	} else if cc.StaticCallee() == nil {
		args = append(args, tr.val(cc.Value))
	} else if mc, ok := cc.Value.(*ssa.MakeClosure); ok {
		for _, b := range mc.Bindings {
			args = append(args, tr.val(b))
		}
	}
	for _, a := range cc.Args {
		args = append(args, tr.val(a))
	}
	sp, name := tr.specForCall(cc)
	sig := cc.Signature()
	tr.atCall(ins, args)
	if cc.IsInvoke() {
		n := tr.ord("nil.invoke")
		nilv := "nil_iface"
		if args[0].Sort == "RType" {
			nilv = "rt_nil"
		}
		if args[0].Sort == "Ref" {
			nilv = "nilref"
		}
		tr.oblige("nil", fmt.Sprintf("nil.invoke.%s#%d", cc.Method.Name(), n), not(app("=", args[0].S, nilv)), ins.Pos(), nil, "method call on nil interface")
	} else if cc.StaticCallee() == nil {
		n := tr.ord("nil.funcvalue")
		tr.oblige("nil", fmt.Sprintf("nil.call#%d", n), not(app("=", args[0].S, "nilref")), ins.Pos(), nil, "call of nil function value")
	}
	if sp == nil {
		inferred := false
		if callee := cc.StaticCallee(); callee != nil && !cc.IsInvoke() {
			if mods, all := tr.inferredMods(callee, nil); !all {
				// a module function without a contract: its results are unknown, its writes are those of its body
				inferred = true
				tr.unsupported("call of %s has no contract: results unknown, write set inferred from its body", name)
				pre := tr.cur.clone()
				var names []string
				for m := range mods {
					names = append(names, m)
				}
				sort.Strings(names)
				for _, cn := range names {
					if _, ok := tr.compSort[cn]; !ok {
						if ks, ok := tr.known[cn]; ok {
							tr.regComp(cn, ks)
						} else {
							continue
						}
					}
					tr.havoc(tr.cur, cn)
				}
				tr.recordsAppendOnly(pre, "")
			}
		}
		if !inferred {
			tr.unsupported("call of %s has no contract: everything is havocked", name)
			tr.havocAll(tr.cur)
		}
		tr.bumpClock()
		var res []Term
		for i := 0; i < sig.Results().Len(); i++ {
			rt := sig.Results().At(i).Type()
			s := tr.c.sortOf(rt)
			t := Term{tr.c.freshConst("res_"+shortCallee(name), s), s, rt}
			tr.wf(t, rt)
			res = append(res, t)
		}
		return res
	}
	return tr.applySpec(sp, name, args, sig, ins.Pos())
}

// callText returns the source text of the callee expression of the call at pos ("cbh.cb", "d.submitEvent").
func (tr *fnTrans) callText(pos token.Pos) string {
	if tr.callTexts == nil {
		tr.callTexts = map[token.Pos]string{}
		tr.callFull = map[token.Pos]string{}
		fn := tr.fn
		var node ast.Node = fn.Syntax()
		if node == nil && fn.Origin() != nil {
			node = fn.Origin().Syntax()
		}
		if node == nil && fn.Parent() != nil {
			node = fn.Parent().Syntax()
		}
		if node != nil {
			ast.Inspect(node, func(n ast.Node) bool {
				if ce, ok := n.(*ast.CallExpr); ok {
					tr.callTexts[ce.Lparen] = types.ExprString(ce.Fun)
					tr.callFull[ce.Lparen] = types.ExprString(ce)
				}
				return true
			})
		}
	}
	return tr.callTexts[pos]
}

// atCall runs the inline assertions and ghost updates anchored at this call.
func (tr *fnTrans) atCall(ins ssa.Instruction, args []Term) {
	if len(tr.spec.Ats) == 0 {
		return
	}
	callPos := ins.Pos()
	if g, ok := ins.(*ssa.Go); ok {
		callPos = g.Common().Pos() // the go keyword is not where the call text is indexed
	}
	for _, at := range tr.matchAts(callPos) {
		at.Used = true
		env := map[string]Term{}
		for k, v := range tr.params {
			env[k] = v
		}
		for i, a := range args {
			if a.S != "" {
				env[fmt.Sprintf("arg%d", i)] = a
			}
		}
		blk, pidx := tr.curBlock, tr.curIdx
		ev := &evalCtx{tr: tr, env: env, cur: tr.cur, old: tr.entry}
		ev.names = func(cx *evalCtx, name string) (Term, bool) {
			return tr.resolveVarAt(name, blk, pidx, cx.cur, nil)
		}
		n := tr.ord("at." + at.Expr)
		text := at.Expr
		for i, a := range at.Asserts {
			s, err := ev.EvalBool(a.E)
			if err != nil {
				panic(evalErr{fmt.Sprintf("at call %s assert %d (%s): %v", text, i, a.Where, err)})
			}
			label := a.Label
			if label == "" {
				label = fmt.Sprint(i)
			}
			tr.oblige("assert", fmt.Sprintf("at.%s.%s#%d", text, label, n), s, ins.Pos(), tr.propsOfLabel(a.Label), a.Src)
		}
		for i, a := range at.Assumes {
			s, err := ev.EvalBool(a.E)
			if err != nil {
				panic(evalErr{fmt.Sprintf("at call %s assume %d (%s): %v", text, i, a.Where, err)})
			}
			tr.c.trusted["inline-assume:"+tr.key+":"+a.Label] = true
			tr.assume(s)
		}
		for _, g := range at.Ghosts {
			ev.cur = tr.cur
			tr.applyGhost(g, ev)
		}
	}
}

// matchAts lists the at-blocks anchored at the call at pos.
func (tr *fnTrans) matchAts(pos token.Pos) []*AtSpec {
	text := tr.callText(pos)
	full := tr.callFull[pos]
	var out []*AtSpec
	for _, at := range tr.spec.Ats {
		if at.Kind != "call" {
			continue
		}
		if strings.HasPrefix(at.Expr, "*.") {
			// every call of a method of that name, whatever the receiver expression
			if !strings.HasSuffix(text, at.Expr[1:]) {
				continue
			}
		} else if strings.Contains(at.Expr, "(") {
			if !strings.HasPrefix(full, at.Expr) {
				continue
			}
		} else if at.Expr != text {
			continue
		}
		out = append(out, at)
	}
	return out
}

// applyGhost performs a ghost assignment in the current state.
func (tr *fnTrans) applyGhost(g GhostAssign, ev *evalCtx) {
	gd, ok := tr.eng.Specs.GhostIx[g.Name]
	if !ok {
		panic(evalErr{fmt.Sprintf("%s: unknown ghost %q", g.Where, g.Name)})
	}
	s, _, err := tr.c.specSort(gd.Sort)
	if err != nil {
		panic(evalErr{err.Error()})
	}
	v, err := ev.Eval(g.Val)
	if err != nil {
		panic(evalErr{fmt.Sprintf("%s: %v", g.Where, err)})
	}
	comp := "G:" + g.Name
	if g.Index == nil {
		v = ev.coerceNil(v, s)
		if v.Sort != s {
			panic(evalErr{fmt.Sprintf("%s: ghost %s has sort %s, value has %s", g.Where, g.Name, s, v.Sort)})
		}
		tr.set(tr.cur, comp, s, v.S)
		return
	}
	idx, err := ev.Eval(g.Index)
	if err != nil {
		panic(evalErr{fmt.Sprintf("%s: %v", g.Where, err)})
	}
	_, vs := arraySorts(s)
	v = ev.coerceNil(v, vs)
	tr.set(tr.cur, comp, s, app("store", tr.get(tr.cur, comp, s), idx.S, v.S))
}

func (tr *fnTrans) bumpClock() {
	old := tr.clock(tr.cur)
	nc := tr.c.freshConst("$clock", "Int")
	tr.set(tr.cur, "$clock", "Int", nc)
	tr.assume(app("<=", old, nc))
}

func (tr *fnTrans) applySpec(sp *FuncSpec, name string, args []Term, sig *types.Signature, p token.Pos) []Term {
	var res []Term
	tr.inHome(sp.Where, func() { res = tr.applySpecIn(sp, name, args, sig, p) })
	return res
}

func (tr *fnTrans) applySpecIn(sp *FuncSpec, name string, args []Term, sig *types.Signature, p token.Pos) []Term {
	short := shortCallee(name)
	n := tr.ord("call." + short)
	if sp.Flags["unproved"] != "" {
		tr.c.trusted["unproved-callee:"+sp.Key] = true
	}
	if tr.nonblocking && sp.Flags["blocking"] != "" {
		tr.oblige("select", fmt.Sprintf("call.%s.nonblocking#%d", short, n), "false", p, nil, "call of a blocking function in a non-blocking function")
	}
	if sp.Kind != "func" {
		tr.c.trusted["assumed-contract:"+sp.Kind+":"+sp.Key] = true
	} else if tr.eng.LookupFunc(sp.Key) == nil {
		tr.c.trusted["assumed-contract:"+sp.Key] = true
	}
	env := map[string]Term{}
	for i, a := range args {
		if i < len(sp.Params) {
			env[sp.Params[i]] = a
		}
	}
	pre := tr.cur.clone()
	ev := &evalCtx{tr: tr, env: env, cur: pre, old: pre}
	for i, r := range sp.Requires {
		s, err := ev.EvalBool(r.E)
		if err != nil {
			panic(evalErr{fmt.Sprintf("call of %s, requires %d (%s): %v", name, i, r.Where, err)})
		}
		label := r.Label
		if label == "" {
			label = fmt.Sprint(i)
		}
		if strings.HasPrefix(label, "wf_") {
			// facts true in every Go execution (e.g. stored references are allocated): assumed, not checked
			tr.c.trusted["go-heap-wellformedness:"+short+"."+label] = true
			tr.assume(s)
			continue
		}
		tr.oblige("pre", fmt.Sprintf("call.%s.pre.%s#%d", short, label, n), s, p, tr.propsOfLabel(r.Label), r.Src)
	}
	// recursion: decreases
	if sp.Kind == "func" && len(sp.Decreases) > 0 && len(tr.spec.Decreases) > 0 && tr.sameSCC(sp.Key) {
		var cur, old []Term
		for _, m := range sp.Decreases {
			t, err := ev.Eval(m)
			if err != nil {
				panic(evalErr{fmt.Sprintf("decreases of %s: %v", name, err)})
			}
			cur = append(cur, t)
		}
		ev0 := &evalCtx{tr: tr, env: tr.params, cur: tr.entry, old: tr.entry}
		for _, m := range tr.spec.Decreases {
			t, err := ev0.Eval(m)
			if err != nil {
				panic(evalErr{fmt.Sprintf("decreases of %s: %v", tr.key, err)})
			}
			old = append(old, t)
		}
		if len(cur) == len(old) {
			tr.oblige("decreases", fmt.Sprintf("call.%s.decreases#%d", short, n), lexLess(cur, old), p, nil, "")
		}
	}
	// frame
	if sp.ModAll {
		// the callee's own call record is maintained exactly by recordCall below
		keep := map[string]string{}
		if name := sp.Flags["record"]; name != "" {
			for _, cn := range tr.allComps() {
				if strings.HasPrefix(cn, "G:rec_"+name+"_") {
					keep[cn] = tr.get(tr.cur, cn, tr.compSort[cn])
				}
			}
		}
		tr.havocAll(tr.cur)
		for cn, t := range keep {
			tr.cur.comps[cn] = t
		}
	} else {
		own := ""
		if name := sp.Flags["record"]; name != "" {
			own = "G:rec_" + name + "_"
		}
		keyed := tr.keyedMods(sp, ev)
		for _, cn := range tr.specMods(sp) {
			if own != "" && strings.HasPrefix(cn, own) {
				continue // maintained exactly by recordCall below
			}
			if keys, ok := keyed[cn]; ok {
				// only the listed objects may change
				s := tr.compSort[cn]
				_, vs := arraySorts(s)
				cur := tr.get(tr.cur, cn, s)
				for _, k := range keys {
					cur = app("store", cur, k, tr.c.freshConst(cn+"!at", vs))
				}
				tr.set(tr.cur, cn, s, cur)
				continue
			}
			tr.havoc(tr.cur, cn)
		}
		tr.recordsAppendOnly(pre, own)
	}
	if sp.Flags["pure"] == "" {
		tr.bumpClock()
	}
	var res []Term
	for i := 0; i < sig.Results().Len(); i++ {
		rt := sig.Results().At(i).Type()
		s := tr.c.sortOf(rt)
		t := Term{tr.c.freshConst("res_"+short, s), s, rt}
		res = append(res, t)
		if i < len(sp.Results) {
			env[sp.Results[i]] = t
		}
		if sig.Results().Len() == 1 {
			env["result"] = t
		}
	}
	for _, t := range res {
		tr.wf(t, t.T)
	}
	if sp.Flags["record"] != "" {
		tr.recordCall(sp, args, res, pre)
	}
	evp := &evalCtx{tr: tr, env: env, cur: tr.cur, old: pre}
	for i, en := range sp.Ensures {
		s, err := evp.EvalBool(en.E)
		if err != nil {
			panic(evalErr{fmt.Sprintf("call of %s, ensures %d (%s): %v", name, i, en.Where, err)})
		}
		tr.assume(s)
	}
	if sp.Flags["noreturn"] != "" {
		g := tr.c.freshConst("g", "Bool")
		tr.asserts = append(tr.asserts, app("=", g, "false"))
		tr.guard = g
	}
	return res
}

// recordCall maintains the call-history ghost of a function flagged `record <name>`:
// rec_<name>_cnt, rec_<name>_arg<i>[k], rec_<name>_res<i>[k], and heap snapshots listed in flag record_heap.
func (tr *fnTrans) recordCall(sp *FuncSpec, args, res []Term, pre *State) {
	name := sp.Flags["record"]
	cntC := "G:rec_" + name + "_cnt"
	k := tr.get(tr.cur, cntC, "Int")
	for i, a := range args {
		comp := fmt.Sprintf("G:rec_%s_arg%d", name, i)
		s := "(Array Int " + a.Sort + ")"
		tr.set(tr.cur, comp, s, app("store", tr.get(tr.cur, comp, s), k, a.S))
	}
	for i, r := range res {
		comp := fmt.Sprintf("G:rec_%s_res%d", name, i)
		s := "(Array Int " + r.Sort + ")"
		tr.set(tr.cur, comp, s, app("store", tr.get(tr.cur, comp, s), k, r.S))
	}
	for i, h := range strings.Fields(sp.Flags["record_heap"]) {
		hc, err := tr.compForModifies(h)
		if err != nil {
			panic(evalErr{err.Error()})
		}
		comp := fmt.Sprintf("G:rec_%s_heap%d", name, i)
		s := "(Array Int " + tr.compSort[hc] + ")"
		tr.set(tr.cur, comp, s, app("store", tr.get(tr.cur, comp, s), k, tr.get(pre, hc, tr.compSort[hc])))
	}
	tr.set(tr.cur, cntC, "Int", "(+ "+k+" 1)")
}

// recordsAppendOnly: call records are only ever appended to.  After a callee may have changed the records of
// other functions (its modifies lists rec_<name>), the counter has not gone down and every entry below the
// old counter is what it was.
func (tr *fnTrans) recordsAppendOnly(pre *State, own string) {
	var names []string
	for cn := range tr.compSort {
		if strings.HasPrefix(cn, "G:rec_") && strings.HasSuffix(cn, "_cnt") && (own == "" || !strings.HasPrefix(cn, own)) {
			names = append(names, cn)
		}
	}
	sort.Strings(names)
	for _, cntC := range names {
		oldCnt, ok1 := pre.comps[cntC]
		newCnt := tr.get(tr.cur, cntC, "Int")
		if !ok1 || oldCnt == newCnt {
			continue
		}
		tr.assume(app("<=", oldCnt, newCnt))
		prefix := strings.TrimSuffix(cntC, "cnt")
		var comps []string
		for cn := range tr.compSort {
			if strings.HasPrefix(cn, prefix) && cn != cntC {
				comps = append(comps, cn)
			}
		}
		sort.Strings(comps)
		for _, cn := range comps {
			o, ok := pre.comps[cn]
			n := tr.get(tr.cur, cn, tr.compSort[cn])
			if !ok || o == n {
				continue
			}
			tr.assume(fmt.Sprintf("(forall ((qv!r Int)) (! (=> (< qv!r %s) (= (select %s qv!r) (select %s qv!r))) :pattern ((select %s qv!r))))", oldCnt, n, o, n))
		}
	}
}

func (tr *fnTrans) sameSCC(key string) bool {
	// conservative: the callee is this function, or both declare decreases (mutual recursion family)
	return true
}

func (tr *fnTrans) goStmt(x *ssa.Go) {
	cc := x.Common()
	if _, ok := cc.Value.(*ssa.Builtin); ok {
		return
	}
	sp, name := tr.specForCall(cc)
	if sp == nil {
		return
	}
	var args []Term
	if cc.IsInvoke() || cc.StaticCallee() == nil {
		args = append(args, tr.val(cc.Value))
	}
	for _, a := range cc.Args {
		args = append(args, tr.val(a))
	}
	// at-call clauses also apply to the call of a go statement
	tr.atCall(x, args)
	env := map[string]Term{}
	for i, a := range args {
		if i < len(sp.Params) {
			env[sp.Params[i]] = a
		}
	}
	short := shortCallee(name)
	n := tr.ord("go." + short)
	ev := &evalCtx{tr: tr, env: env, cur: tr.cur, old: tr.cur}
	saved := tr.c.home
	if h := tr.eng.homeOf(sp.Where); h != nil {
		tr.c.home = h
	}
	defer func() { tr.c.home = saved }()
	for i, r := range sp.Requires {
		s, err := ev.EvalBool(r.E)
		if err != nil {
			panic(evalErr{fmt.Sprintf("go %s, requires %d: %v", name, i, err)})
		}
		label := r.Label
		if label == "" {
			label = fmt.Sprint(i)
		}
		if strings.HasPrefix(label, "rely_") {
			tr.c.trusted["thread-role:"+short+"."+label] = true
			continue
		}
		if strings.HasPrefix(label, "wf_") {
			tr.c.trusted["go-heap-wellformedness:"+short+"."+label] = true
			continue
		}
		tr.oblige("pre", fmt.Sprintf("go.%s.pre.%s#%d", short, label, n), s, x.Pos(), tr.propsOfLabel(r.Label), r.Src)
	}
}

func (tr *fnTrans) builtin(b *ssa.Builtin, cc *ssa.CallCommon, ins ssa.Instruction, asVal ssa.Value) []Term {
	c := tr.c
	if len(tr.spec.Ats) > 0 {
		var args []Term
		args = append(args, Term{})
		for _, a := range cc.Args {
			args = append(args, tr.val(a))
		}
		tr.atCall(ins, args)
	}
	switch b.Name() {
	case "len", "cap":
		a := tr.val(cc.Args[0])
		switch a.Sort {
		case "Slice":
			f := "s_len"
			if b.Name() == "cap" {
				f = "s_cap"
			}
			return []Term{{app(f, a.S), "Int", types.Typ[types.Int]}}
		case "Str":
			return []Term{{app("slen", a.S), "Int", types.Typ[types.Int]}}
		case "Ref":
			if _, isMap := types.Unalias(cc.Args[0].Type()).Underlying().(*types.Map); isMap {
				cs := tr.mapComps(cc.Args[0].Type())
				f := tr.maplenFun(cs[0])
				t := Term{app(f, app("select", tr.get(tr.cur, cs[0], tr.compSort[cs[0]]), a.S)), "Int", types.Typ[types.Int]}
				tr.assume(app("<=", "0", t.S))
				return []Term{t}
			}
			if _, isChan := types.Unalias(cc.Args[0].Type()).Underlying().(*types.Chan); isChan {
				comp := "G:chcap"
				t := Term{app("select", tr.get(tr.cur, comp, "(Array Ref Int)"), a.S), "Int", types.Typ[types.Int]}
				if b.Name() == "len" {
					t = Term{tr.c.freshConst("chanlen", "Int"), "Int", types.Typ[types.Int]}
					tr.assume(app("<=", "0", t.S))
				}
				return []Term{t}
			}
		}
		tr.unsupported("builtin %s on %s", b.Name(), cc.Args[0].Type())
		return []Term{{tr.c.freshConst("len", "Int"), "Int", types.Typ[types.Int]}}
	case "close":
		tr.closeChan(tr.val(cc.Args[0]), ins.Pos())
		return nil
	case "append":
		return []Term{tr.appendOp(cc, ins)}
	case "copy":
		tr.unsupported("builtin copy")
		for _, m := range func() []string { m, _ := tr.calleeMods(cc); return m }() {
			tr.havoc(tr.cur, m)
		}
		t := Term{tr.c.freshConst("copied", "Int"), "Int", types.Typ[types.Int]}
		tr.assume(app("<=", "0", t.S))
		return []Term{t}
	case "delete":
		cs := tr.mapComps(cc.Args[0].Type())
		m := tr.val(cc.Args[0])
		k := tr.val(cc.Args[1])
		p := tr.get(tr.cur, cs[0], tr.compSort[cs[0]])
		tr.set(tr.cur, cs[0], tr.compSort[cs[0]], app("ite", app("=", m.S, "nilref"), p, app("store", p, m.S, app("store", app("select", p, m.S), k.S, "false"))))
		return nil
	case "print", "println":
		return nil
	case "Sizeof":
		at := cc.Args[0].Type()
		if tp, ok := types.Unalias(at).(*types.TypeParam); ok {
			if _, _, isInt := intTypeParam(tp); isInt {
				tr.useTypeParam(at)
				return []Term{{"(div " + tpBitsName(tp) + " 8)", "Int", types.Typ[types.Uintptr]}}
			}
		}
		if bits, _, ok := intBits(at); ok {
			return []Term{{fmt.Sprint(bits / 8), "Int", types.Typ[types.Uintptr]}}
		}
	case "ssa:wrapnilchk":
		a := tr.val(cc.Args[0])
		tr.oblige("nil", fmt.Sprintf("nil.wrapnilchk#%d", tr.ord("nil.wrapnilchk")), not(app("=", a.S, "nilref")), ins.Pos(), nil, "")
		return []Term{a}
	case "min", "max":
		a, bb := tr.val(cc.Args[0]), tr.val(cc.Args[1])
		if a.Sort == "Int" && len(cc.Args) == 2 {
			op := "<="
			if b.Name() == "max" {
				op = ">="
			}
			return []Term{{app("ite", app(op, a.S, bb.S), a.S, bb.S), "Int", a.T}}
		}
	}
	tr.unsupported("builtin %s", b.Name())
	var res []Term
	sig := cc.Signature()
	for i := 0; i < sig.Results().Len(); i++ {
		rt := sig.Results().At(i).Type()
		s := c.sortOf(rt)
		res = append(res, Term{tr.c.freshConst("builtin_"+b.Name(), s), s, rt})
	}
	return res
}

// appendOp models append(s, t...): the result has the elements of s followed by those of t. Whether the
// backing array is reused is left open except that existing elements of s are preserved in the result.
func (tr *fnTrans) appendOp(cc *ssa.CallCommon, ins ssa.Instruction) Term {
	s := tr.val(cc.Args[0])
	t := tr.val(cc.Args[1])
	sl, ok := types.Unalias(cc.Args[0].Type()).Underlying().(*types.Slice)
	if !ok || t.Sort != "Slice" {
		tr.unsupported("append with %s", cc.Args[1].Type())
		r := Term{tr.c.freshConst("append", "Slice"), "Slice", cc.Args[0].Type()}
		tr.wf(r, r.T)
		return r
	}
	et := sl.Elem()
	r := Term{tr.c.freshConst("append", "Slice"), "Slice", cc.Args[0].Type()}
	newLen := "(+ " + app("s_len", s.S) + " " + app("s_len", t.S) + ")"
	inPlace := app("<=", newLen, app("s_cap", s.S))
	freshArr := tr.c.freshConst("append_arr", "Ref")
	tr.assume(and(not(app("=", freshArr, "nilref")), app("=", app("allocT", freshArr), tr.clock(tr.cur))))
	tr.set(tr.cur, "$clock", "Int", "(+ "+tr.clock(tr.cur)+" 1)")
	tr.assume(app("=", app("s_len", r.S), newLen))
	tr.assume(app("<=", app("s_len", r.S), app("s_cap", r.S)))
	tr.assume(app("ite", inPlace,
		and(app("=", app("s_arr", r.S), app("s_arr", s.S)), app("=", app("s_off", r.S), app("s_off", s.S)), app("=", app("s_cap", r.S), app("s_cap", s.S))),
		and(app("=", app("s_arr", r.S), freshArr), app("=", app("s_off", r.S), "0"))))
	// element contents: new heap versions for the element components
	mods := map[string]bool{}
	tr.compsOfLoc(tr.refLoc("x", et, true), mods)
	var names []string
	for m := range mods {
		names = append(names, m)
	}
	sort.Strings(names)
	for _, comp := range names {
		oldA := tr.get(tr.cur, comp, tr.compSort[comp])
		newA := tr.c.freshConst(comp, tr.compSort[comp])
		rref := func(k string) string { return app("selem", r.S, k) }
		sref := func(k string) string { return app("selem", s.S, k) }
		tref := func(k string) string { return app("selem", t.S, k) }
		// prefix preserved, suffix copied, everything outside the result's new cells unchanged
		tr.assume(fmt.Sprintf("(forall ((qv!k Int)) (! (=> (and (<= 0 qv!k) (< qv!k %s)) (= (select %s %s) (select %s %s))) :pattern ((select %s %s))))",
			app("s_len", s.S), newA, rref("qv!k"), oldA, sref("qv!k"), newA, rref("qv!k")))
		tr.assume(fmt.Sprintf("(forall ((qv!k Int)) (! (=> (and (<= 0 qv!k) (< qv!k %s)) (= (select %s %s) (select %s %s))) :pattern ((select %s %s))))",
			app("s_len", t.S), newA, rref("(+ "+app("s_len", s.S)+" qv!k)"), oldA, tref("qv!k"), newA, rref("(+ "+app("s_len", s.S)+" qv!k)")))
		tr.assume(fmt.Sprintf("(forall ((qv!x Ref)) (! (=> (not (and (= qv!x (eref (eref_arr qv!x) (eref_idx qv!x))) (= (eref_arr qv!x) %s) (<= (+ %s %s) (eref_idx qv!x)) (< (eref_idx qv!x) (+ %s %s)))) (= (select %s qv!x) (select %s qv!x))) :pattern ((select %s qv!x))))",
			app("s_arr", r.S), app("s_off", r.S), app("s_len", s.S), app("s_off", r.S), newLen, newA, oldA, newA))
		tr.set(tr.cur, comp, tr.compSort[comp], newA)
	}
	return r
}

func (tr *fnTrans) doReturn(x *ssa.Return) {
	k := tr.retCount
	tr.retCount++
	env := map[string]Term{}
	for n, t := range tr.params {
		env[n] = t
	}
	for i, r := range x.Results {
		t := tr.val(r)
		if i < len(tr.spec.Results) {
			env[tr.spec.Results[i]] = t
		}
		if len(x.Results) == 1 {
			env["result"] = t
		}
	}
	ev := &evalCtx{tr: tr, env: env, cur: tr.cur, old: tr.entry}
	guard := tr.guard
	for i, en := range tr.spec.Ensures {
		s, err := ev.EvalBool(en.E)
		if err != nil {
			panic(evalErr{fmt.Sprintf("ensures %d (%s): %v", i, en.Where, err)})
		}
		label := en.Label
		if label == "" {
			label = fmt.Sprint(i)
		}
		tr.obligeG(guard, "ensures", fmt.Sprintf("ensures.%s#r%d", label, k), s, x.Pos(), tr.propsOfLabel(en.Label), en.Src)
	}
	// frame: components not listed in modifies are unchanged on previously allocated objects
	if !tr.spec.ModAll && tr.spec.Flags["noframe"] == "" {
		allowed := map[string]bool{"$clock": true}
		ev0 := &evalCtx{tr: tr, env: tr.params, cur: tr.entry, old: tr.entry}
		keyedSelf := tr.keyedMods(tr.spec, ev0)
		for _, cn := range tr.specMods(tr.spec) {
			if _, ok := keyedSelf[cn]; ok {
				continue
			}
			allowed[cn] = true
		}
		for _, comp := range tr.allComps() {
			if allowed[comp] || strings.HasPrefix(comp, "L:") {
				continue
			}
			cur := tr.get(tr.cur, comp, tr.compSort[comp])
			old := q(comp + "@0")
			if cur == old {
				continue
			}
			var goal string
			if strings.HasPrefix(tr.compSort[comp], "(Array Ref ") {
				excl := "true"
				for _, k := range keyedSelf[comp] {
					excl = and(excl, not(app("=", "qv!x", k)))
				}
				goal = fmt.Sprintf("(forall ((qv!x Ref)) (=> (and (< (allocT qv!x) %s) %s) (= (select %s qv!x) (select %s qv!x))))", tr.clock(tr.entry), excl, cur, old)
			} else {
				goal = app("=", cur, old)
			}
			tr.obligeG(guard, "frame", fmt.Sprintf("frame.%s#r%d", comp, k), goal, x.Pos(), nil, "component not in modifies clause")
		}
	}
	if tr.spec.Flags["vacuity"] != "off" {
		tr.obls = append(tr.obls, &Obligation{Name: fmt.Sprintf("%s.vacuity.return_reachable#r%d", tr.key, k), Func: tr.key, Kind: "vacuity",
			Label: fmt.Sprintf("vacuity.return_reachable#r%d", k), Guard: guard, Goal: "false", Planted: true, Props: tr.props})
	}
	tr.blockOut[tr.curBlock] = tr.cur
}

// specDecls renders the spec functions, constants and axioms used by this VC (transitively).
func (tr *fnTrans) specDecls() string {
	sp := tr.eng.Specs
	c := tr.c
	emitted := map[string]string{}
	var order []string
	pure := &fnTrans{eng: tr.eng, c: c, compSort: map[string]Sort{}}
	var emit func(name string)
	var recDecls []string
	bodyOf := func(fd *FunDecl) (string, []string, Sort) {
		saved := c.home
		if h := tr.eng.homeOf(fd.Where); h != nil {
			c.home = h
		}
		defer func() { c.home = saved }()
		env := map[string]Term{}
		var ps []string
		for _, p := range fd.Params {
			s, gt, err := c.specSort(p.Sort)
			if err != nil {
				panic(evalErr{fmt.Sprintf("%s: %v", fd.Where, err)})
			}
			vn := q("a:" + p.Name)
			env[p.Name] = Term{vn, s, gt}
			ps = append(ps, fmt.Sprintf("(%s %s)", vn, s))
		}
		rs, _, err := c.specSort(fd.Ret)
		if err != nil {
			panic(evalErr{fmt.Sprintf("%s: %v", fd.Where, err)})
		}
		if fd.Body == nil {
			return "", ps, rs
		}
		before := map[string]bool{}
		for k := range c.usedFuns {
			before[k] = true
		}
		ev := &evalCtx{tr: pure, env: env}
		t, err := ev.Eval(fd.Body)
		if err != nil {
			panic(evalErr{fmt.Sprintf("%s: body of %s: %v", fd.Where, fd.Name, err)})
		}
		t = ev.coerceNil(t, rs)
		if t.Sort != rs {
			panic(evalErr{fmt.Sprintf("%s: body of %s has sort %s, want %s", fd.Where, fd.Name, t.Sort, rs)})
		}
		return t.S, ps, rs
	}
	emit = func(name string) {
		if _, ok := emitted[name]; ok {
			return
		}
		fd := sp.FunIdx[name]
		if fd == nil {
			return
		}
		emitted[name] = ""
		if fd.Rec {
			// declared up front (recDecls) so that mutually recursive bodies may mention each other
			var pss []string
			for _, p := range fd.Params {
				s, _, _ := c.specSort(p.Sort)
				pss = append(pss, s)
			}
			rss, _, _ := c.specSort(fd.Ret)
			recDecls = append(recDecls, fmt.Sprintf("(declare-fun %s (%s) %s)\n", q("f:"+name), strings.Join(pss, " "), rss))
			emitted[name] = ""
		}
		before := map[string]bool{}
		for k := range c.usedFuns {
			before[k] = true
		}
		body, ps, rs := bodyOf(fd)
		// dependencies (functions first mentioned by this body) come first
		var deps []string
		for dep := range c.usedFuns {
			if !before[dep] {
				deps = append(deps, dep)
			}
		}
		sort.Strings(deps)
		for _, dep := range deps {
			if _, ok := emitted[dep]; !ok {
				emit(dep)
			}
		}
		// functions mentioned by the body that were already known but not yet emitted
		if fd.Body != nil {
			var more []string
			collectCalls(fd.Body, &more)
			for _, dep := range more {
				if _, ok := emitted[dep]; !ok && sp.FunIdx[dep] != nil {
					emit(dep)
				}
			}
		}
		switch {
		case fd.Body == nil:
			var ss []string
			for _, p := range fd.Params {
				s, _, _ := c.specSort(p.Sort)
				ss = append(ss, s)
			}
			emitted[name] = fmt.Sprintf("(declare-fun %s (%s) %s)\n", q("f:"+name), strings.Join(ss, " "), rs)
		case fd.Rec:
			var vs []string
			for _, p := range fd.Params {
				vs = append(vs, q("a:"+p.Name))
			}
			call := app(q("f:"+name), vs...)
			emitted[name] += fmt.Sprintf("(assert (forall (%s) (! (= %s %s) :pattern (%s))))\n", strings.Join(ps, " "), call, body, call)
		default:
			emitted[name] = fmt.Sprintf("(define-fun %s (%s) %s %s)\n", q("f:"+name), strings.Join(ps, " "), rs, body)
		}
		order = append(order, name)
	}
	// axioms: include those that mention a used function; iterate to a fixpoint
	if c.usedFuns["typeOfDyn"] {
		c.useFun("kind")
		c.useFun("elem")
	}
	axText := map[*AxiomDecl]string{}
	lemmaDone := false
	var lemmaTexts []string
	for changed := true; changed; {
		changed = false
		if !lemmaDone && len(sp.Lemmas) > 0 {
			before := len(c.usedFuns)
			lemmaTexts = tr.lemmaFacts()
			if len(c.usedFuns) != before {
				changed = true
			} else {
				lemmaDone = true
			}
		}
		var names []string
		for n := range c.usedFuns {
			names = append(names, n)
		}
		sort.Strings(names)
		for _, n := range names {
			if _, ok := emitted[n]; !ok {
				emit(n)
				changed = true
			}
		}
		for _, a := range sp.Axioms {
			if _, done := axText[a]; done {
				continue
			}
			if !exprMentions(a.E, c.usedFuns) {
				continue
			}
			ev := &evalCtx{tr: pure, env: map[string]Term{}}
			s, err := ev.EvalBool(a.E)
			if err != nil {
				panic(evalErr{fmt.Sprintf("%s: axiom: %v", a.Where, err)})
			}
			axText[a] = s
			c.trusted["axiom:"+a.Name+"@"+shortWhere(a.Where)] = true
			changed = true
		}
	}
	var sb strings.Builder
	// late declarations made while evaluating bodies
	for _, d := range c.decls[tr.declMark():] {
		_ = d
	}
	// uninterpreted functions first, then the declarations of recursive ones, then definitions and axioms
	for _, n := range order {
		if strings.HasPrefix(emitted[n], "(declare-fun") {
			sb.WriteString(emitted[n])
		}
	}
	for _, d := range recDecls {
		sb.WriteString(d)
	}
	for _, n := range order {
		if !strings.HasPrefix(emitted[n], "(declare-fun") {
			sb.WriteString(emitted[n])
		}
	}
	for _, a := range sp.Axioms {
		if s, ok := axText[a]; ok {
			fmt.Fprintf(&sb, "(assert %s)\n", s)
		}
	}
	for _, lt := range lemmaTexts {
		fmt.Fprintf(&sb, "(assert %s)\n", lt)
	}
	if c.usedFuns["typeOfDyn"] {
		for _, f := range c.tidFacts() {
			fmt.Fprintf(&sb, "(assert %s)\n", f)
		}
		c.trusted["reflect-facts-about-concrete-types"] = true
	}
	return sb.String()
}

func (tr *fnTrans) declMark() int { return len(tr.c.decls) }

func shortWhere(w string) string {
	if i := strings.LastIndex(w, "/"); i >= 0 {
		return w[i+1:]
	}
	return w
}

func collectCalls(e *Expr, out *[]string) {
	if e == nil {
		return
	}
	if e.Op == "call" || e.Op == "ident" {
		*out = append(*out, e.Name)
	}
	for _, a := range e.Args {
		collectCalls(a, out)
	}
	for _, a := range e.Trig {
		collectCalls(a, out)
	}
}

func exprMentions(e *Expr, names map[string]bool) bool {
	if e == nil {
		return false
	}
	if (e.Op == "call" || e.Op == "ident") && names[e.Name] {
		return true
	}
	for _, a := range e.Args {
		if exprMentions(a, names) {
			return true
		}
	}
	for _, a := range e.Trig {
		if exprMentions(a, names) {
			return true
		}
	}
	return false
}

// recSort derives the sort of a call-record ghost (rec_<name>_arg<i> / _res<i> / _heap<i>) from the
// signature of the recorded function.
func (tr *fnTrans) recSort(ghost string) Sort {
	for _, sp := range tr.eng.Specs.FuncL {
		name := sp.Flags["record"]
		if name == "" || !strings.HasPrefix(ghost, "rec_"+name+"_") {
			continue
		}
		rest := strings.TrimPrefix(ghost, "rec_"+name+"_")
		var idx int
		if sp.Kind == "iface" {
			// key: pkg.Iface.Method
			i := strings.LastIndex(sp.Key, ".")
			if i < 0 {
				return ""
			}
			it := tr.eng.LookupGoType(sp.Key[:i], tr.c.home)
			if it == nil {
				return ""
			}
			iface, ok := it.Underlying().(*types.Interface)
			if !ok {
				return ""
			}
			for m := 0; m < iface.NumMethods(); m++ {
				if iface.Method(m).Name() != sp.Key[i+1:] {
					continue
				}
				sig := iface.Method(m).Type().(*types.Signature)
				switch {
				case strings.HasPrefix(rest, "arg"):
					fmt.Sscanf(rest, "arg%d", &idx)
					if idx == 0 {
						return "(Array Int " + tr.c.sortOf(it) + ")"
					}
					if idx-1 < sig.Params().Len() {
						return "(Array Int " + tr.c.sortOf(sig.Params().At(idx-1).Type()) + ")"
					}
				case strings.HasPrefix(rest, "res"):
					fmt.Sscanf(rest, "res%d", &idx)
					if idx < sig.Results().Len() {
						return "(Array Int " + tr.c.sortOf(sig.Results().At(idx).Type()) + ")"
					}
				}
			}
			return ""
		}
		fn := tr.eng.LookupFunc(sp.Key)
		if fn == nil {
			return ""
		}
		switch {
		case strings.HasPrefix(rest, "arg"):
			fmt.Sscanf(rest, "arg%d", &idx)
			ps := fn.Params
			if idx < len(ps) {
				return "(Array Int " + tr.c.sortOf(ps[idx].Type()) + ")"
			}
		case strings.HasPrefix(rest, "res"):
			fmt.Sscanf(rest, "res%d", &idx)
			rs := fn.Signature.Results()
			if idx < rs.Len() {
				return "(Array Int " + tr.c.sortOf(rs.At(idx).Type()) + ")"
			}
		case strings.HasPrefix(rest, "heap"):
			fmt.Sscanf(rest, "heap%d", &idx)
			hs := strings.Fields(sp.Flags["record_heap"])
			if idx < len(hs) {
				hc, err := tr.compForModifies(hs[idx])
				if err == nil {
					return "(Array Int " + tr.compSort[hc] + ")"
				}
			}
		}
	}
	return ""
}

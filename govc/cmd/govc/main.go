package main

import (
	"flag"
	"fmt"
	"os"
	"sort"
	"strings"

	"govc"
)

func main() {
	repo := flag.String("repo", "/repo", "repository")
	speclib := flag.String("speclib", "/verif/speclib", "spec library")
	timeout := flag.Int("timeout", 10, "solver timeout (s)")
	keep := flag.String("keep", "", "directory to keep SMT files in")
	only := flag.String("only", "", "substring filter on obligation names")
	verif := flag.String("verif", "/verif", "verification directory")
	relock := flag.Bool("relock", false, "rewrite obligations.lock.json for the checked property")
	ov := flag.String("ov", "", "overlay: /repo/file.go=/path/to/replacement[,...]")
	flag.Parse()
	args := flag.Args()
	if len(args) < 1 {
		fmt.Println("usage: govc vc <pkgpattern> <funcKey>...")
		os.Exit(2)
	}
	switch args[0] {
	case "mutants":
		if len(args) < 2 {
			fmt.Println("usage: govc mutants <PROPERTY>")
			os.Exit(2)
		}
		os.Exit(govc.RunMutantsCmd(*verif, *repo, args[1]))
	case "check":
		if len(args) < 3 {
			fmt.Println("usage: govc check <PROPERTY> quick|thorough")
			os.Exit(2)
		}
		seed := 0
		fmt.Sscanf(os.Getenv("VERIF_SEED"), "%d", &seed)
		overlay := map[string][]byte{}
		if *ov != "" {
			for _, kv := range strings.Split(*ov, ",") {
				parts := strings.SplitN(kv, "=", 2)
				b, err := os.ReadFile(parts[1])
				if err != nil {
					fmt.Println("ERROR", err)
					os.Exit(2)
				}
				overlay[parts[0]] = b
			}
		}
		os.Exit(govc.RunCheck(*verif, *repo, args[1], args[2], seed, overlay, *relock))
	case "vc":
		overlay := map[string][]byte{}
		if *ov != "" {
			for _, kv := range strings.Split(*ov, ",") {
				parts := strings.SplitN(kv, "=", 2)
				b, err := os.ReadFile(parts[1])
				if err != nil {
					fmt.Println("ERROR", err)
					os.Exit(2)
				}
				overlay[parts[0]] = b
			}
		}
		eng, err := govc.Load(*repo, strings.Split(args[1], ","), overlay, *speclib)
		if err != nil {
			fmt.Println("ERROR", err)
			os.Exit(2)
		}
		if len(args) == 2 {
			var keys []string
			for k := range eng.Funcs {
				keys = append(keys, k)
			}
			sort.Strings(keys)
			for _, k := range keys {
				fmt.Println(k)
			}
			return
		}
		dir := *keep
		if dir == "" {
			dir, _ = os.MkdirTemp("", "govc")
			defer os.RemoveAll(dir)
		} else {
			os.MkdirAll(dir, 0o755)
		}
		for _, key := range args[2:] {
			var vc *govc.FuncVC
			if strings.HasPrefix(key, "lemma.") {
				for _, l := range eng.Specs.Lemmas {
					if l.Name == key[6:] {
						vc = eng.TranslateLemma(l)
					}
				}
				if vc == nil {
					fmt.Println("ERROR no such lemma", key)
					continue
				}
			} else {
				vc = eng.TranslateFunc(key)
			}
			if vc.Err != nil {
				fmt.Println("ERROR", vc.Err)
				continue
			}
			fmt.Printf("== %s: %d obligations, %d asserts, loops %d\n", key, len(vc.Obls), len(vc.Asserts), vc.Loops)
			for _, n := range vc.Notes {
				fmt.Println("  note:", n)
			}
			for _, n := range vc.Unsupported {
				fmt.Println("  UNSUPPORTED:", n)
			}
			var obls []*govc.Obligation
			for _, o := range vc.Obls {
				if *only == "" || strings.Contains(o.Name, *only) {
					obls = append(obls, o)
				}
			}
			res := govc.Discharge(vc, obls, dir, *timeout, 16, false)
			for _, r := range res {
				mark := "ok  "
				if r.Obl.Planted {
					if r.Status == "sat" || r.Status == "unknown" {
						mark = "ok-p"
					} else {
						mark = "VACUOUS"
					}
				} else if r.Status != "unsat" {
					mark = "FAIL"
				}
				fmt.Printf("  %-7s %-8s %-7s %6.2fs %s  %s\n", mark, r.Status, r.Solver, r.Seconds, r.Obl.Name, r.Obl.Pos)
			}
			fmt.Println("  trusted:", strings.Join(vc.Trusted, ", "))
		}
	}
}

package main

import (
	"fmt"
	"os"
	"strings"

	"golang.org/x/tools/go/packages"
	"golang.org/x/tools/go/ssa"
	"golang.org/x/tools/go/ssa/ssautil"
)

func main() {
	cfg := &packages.Config{Mode: packages.LoadAllSyntax, Dir: "/repo", BuildFlags: []string{"-tags=verif"},
		Env: append(os.Environ(), "GOFLAGS=-mod=mod", "GOPROXY=off", "GOSUMDB=off", "GOTOOLCHAIN=local")}
	pkgs, err := packages.Load(cfg, os.Args[1])
	if err != nil {
		panic(err)
	}
	prog, spkgs := ssautil.AllPackages(pkgs, ssa.GlobalDebug)
	prog.Build()
	for _, sp := range spkgs {
		if sp == nil || sp.Pkg.Path() != pkgs[0].PkgPath {
			continue
		}
		for fn := range ssautil.AllFunctions(prog) {
			if fn.Pkg != sp && (fn.Origin() == nil || fn.Origin().Pkg != sp) {
				continue
			}
			for _, pat := range os.Args[2:] {
				if strings.Contains(fn.String(), pat) {
					fmt.Println("=====", fn.String(), "synthetic:", fn.Synthetic)
					fn.WriteTo(os.Stdout)
				}
			}
		}
	}
}

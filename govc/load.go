package govc

import (
	"encoding/json"
	"fmt"
	"go/ast"
	"go/token"
	"go/types"
	"os"
	"path/filepath"
	"regexp"
	"sort"
	"strings"

	"golang.org/x/tools/go/packages"
	"golang.org/x/tools/go/ssa"
	"golang.org/x/tools/go/ssa/ssautil"
)

// Engine holds the loaded program and the parsed contracts.
type Engine struct {
	RepoDir  string
	Prog     *ssa.Program
	Pkgs     []*packages.Package
	SSAPkgs  map[string]*ssa.Package // by package path
	ByName   map[string]*packages.Package
	Specs    *Specs
	Funcs    map[string]*ssa.Function // key -> function (repo packages only)
	FuncKeys map[*ssa.Function]string
	Notes    []string
	SpecLib  string
	ModPkgs  []*packages.Package
	fileHome map[string]*types.Package
	// LocalsRef: for every function under contract, the names of its locals in declaration order on the reference
	// tree (written by -relock into locals.lock.json next to the spec library)
	LocalsRef map[string][]string
}

var goEnv = []string{"GOFLAGS=-mod=mod", "GOPROXY=off", "GOSUMDB=off", "GOTOOLCHAIN=local"}

// Load loads the given package patterns of the module at repoDir with build tag verif.
// overlay maps absolute file names to replacement contents (used by the mutant self-tests).
func Load(repoDir string, patterns []string, overlay map[string][]byte, specLib string) (*Engine, error) {
	cfg := &packages.Config{
		Mode:       packages.LoadAllSyntax,
		Dir:        repoDir,
		BuildFlags: []string{"-tags=verif"},
		Env:        append(os.Environ(), goEnv...),
		Overlay:    overlay,
	}
	pkgs, err := packages.Load(cfg, patterns...)
	if err != nil {
		return nil, err
	}
	var errs []string
	packages.Visit(pkgs, nil, func(p *packages.Package) {
		for _, e := range p.Errors {
			errs = append(errs, e.Error())
		}
	})
	if len(errs) > 0 {
		return nil, fmt.Errorf("load errors: %s", strings.Join(errs, "; "))
	}
	prog, spkgs := ssautil.AllPackages(pkgs, ssa.GlobalDebug|ssa.InstantiateGenerics&0)
	prog.Build()
	e := &Engine{RepoDir: repoDir, Prog: prog, Pkgs: pkgs, SSAPkgs: map[string]*ssa.Package{}, ByName: map[string]*packages.Package{},
		Specs: NewSpecs(), Funcs: map[string]*ssa.Function{}, FuncKeys: map[*ssa.Function]string{}, SpecLib: specLib}
	for i, p := range pkgs {
		if spkgs[i] != nil {
			e.SSAPkgs[p.PkgPath] = spkgs[i]
		}
	}
	packages.Visit(pkgs, nil, func(p *packages.Package) {
		if _, ok := e.ByName[p.Name]; !ok || strings.HasPrefix(p.PkgPath, "github.com/vimeo/dials") {
			e.ByName[p.Name] = p
		}
	})
	// contracts: speclib first, then per-package contract files
	if specLib != "" {
		files, _ := filepath.Glob(filepath.Join(specLib, "*.spec"))
		sort.Strings(files)
		for _, f := range files {
			if err := e.Specs.ParseSpecFile(f); err != nil {
				return nil, err
			}
		}
	}
	// every package of the module that was loaded (roots and their module-internal dependencies)
	var modPkgs []*packages.Package
	packages.Visit(pkgs, nil, func(p *packages.Package) {
		if p.Module != nil && p.Module.Main || strings.HasPrefix(p.PkgPath, "github.com/vimeo/dials") {
			modPkgs = append(modPkgs, p)
		}
	})
	sort.Slice(modPkgs, func(i, j int) bool { return modPkgs[i].PkgPath < modPkgs[j].PkgPath })
	e.ModPkgs = modPkgs
	for _, p := range modPkgs {
		for _, f := range p.GoFiles {
			if !strings.HasSuffix(f, "_contracts_verif.go") {
				continue
			}
			var text string
			if ov, ok := overlay[f]; ok {
				text = string(ov)
			} else {
				b, err := os.ReadFile(f)
				if err != nil {
					return nil, err
				}
				text = string(b)
			}
			if err := e.Specs.ParseSpecText(f, text, false); err != nil {
				return nil, err
			}
		}
	}
	// index functions of the loaded root packages: package-level functions, methods of named types
	// (generic ones included), and their anonymous functions
	var add func(fn *ssa.Function)
	add = func(fn *ssa.Function) {
		if fn == nil {
			return
		}
		k := FuncKey(fn)
		if old, dup := e.Funcs[k]; dup && old.Synthetic == "" {
			return
		}
		e.Funcs[k] = fn
		e.FuncKeys[fn] = k
		for _, a := range fn.AnonFuncs {
			add(a)
		}
	}
	for _, p := range modPkgs {
		sp := prog.Package(p.Types)
		if sp == nil {
			continue
		}
		e.SSAPkgs[p.PkgPath] = sp
		scope := p.Types.Scope()
		for _, name := range scope.Names() {
			switch o := scope.Lookup(name).(type) {
			case *types.Func:
				add(prog.FuncValue(o))
			case *types.TypeName:
				n, ok := o.Type().(*types.Named)
				if !ok {
					continue
				}
				for i := 0; i < n.NumMethods(); i++ {
					add(prog.FuncValue(n.Method(i)))
				}
				// promoted methods (embedding): synthetic wrappers are code too
				if n.TypeParams().Len() == 0 {
					for _, recv := range []types.Type{n, types.NewPointer(n)} {
						ms := prog.MethodSets.MethodSet(recv)
						for j := 0; j < ms.Len(); j++ {
							sel := ms.At(j)
							if len(sel.Index()) > 1 {
								if fn := prog.MethodValue(sel); fn != nil {
									add(fn)
								}
							}
						}
					}
				}
			}
		}
		if init := sp.Func("init"); init != nil {
			for _, a := range init.AnonFuncs {
				add(a)
			}
		}
	}
	if specLib != "" {
		if b, err := os.ReadFile(filepath.Join(filepath.Dir(specLib), "locals.lock.json")); err == nil {
			_ = json.Unmarshal(b, &e.LocalsRef)
		}
	}
	return e, nil
}

func namedOf(t types.Type) *types.Named {
	t = types.Unalias(t)
	if p, ok := t.(*types.Pointer); ok {
		t = types.Unalias(p.Elem())
	}
	n, _ := t.(*types.Named)
	return n
}

var reTypeArgs = regexp.MustCompile(`\[[^\[\]]*\]`)

// FuncKey gives the contract key of an SSA function: package-name qualified, type arguments removed.
//
//	(*github.com/vimeo/dials.Dials[T]).updateSourceValue -> dials.(*Dials).updateSourceValue
//	github.com/vimeo/dials.compose                       -> dials.compose
//	(reflect.Value).Kind                                 -> reflect.(Value).Kind
func FuncKey(fn *ssa.Function) string {
	s := fn.String()
	return normFuncName(s)
}

func normFuncName(s string) string {
	for {
		n := reTypeArgs.ReplaceAllString(s, "")
		if n == s {
			break
		}
		s = n
	}
	// strip import path directories: keep last path element as package name
	re := regexp.MustCompile(`[A-Za-z0-9_.\-~]+/`)
	s = re.ReplaceAllString(s, "")
	// "(*dials.Dials).m" -> "dials.(*Dials).m"; "(reflect.Value).Kind" -> "reflect.(Value).Kind"
	if m := regexp.MustCompile(`^\((\*?)([A-Za-z0-9_]+)\.([^)]+)\)\.(.*)$`).FindStringSubmatch(s); m != nil {
		return m[2] + ".(" + m[1] + m[3] + ")." + m[4]
	}
	return s
}

// LookupFunc finds the SSA function for a contract key.
func (e *Engine) LookupFunc(key string) *ssa.Function {
	if fn, ok := e.Funcs[key]; ok {
		return fn
	}
	return nil
}

// TypeString renders a type with package names (not paths) and without the type arguments of generic named
// types.  (Slices, arrays and maps keep their brackets: "[]string", "[2]int", "map[string]int".)
func TypeString(t types.Type) string {
	var b strings.Builder
	writeTypeNoArgs(&b, t)
	return b.String()
}

func writeTypeNoArgs(b *strings.Builder, t types.Type) {
	qual := func(p *types.Package) string { return p.Name() }
	switch u := t.(type) {
	case *types.Named:
		if pkg := u.Obj().Pkg(); pkg != nil {
			b.WriteString(pkg.Name())
			b.WriteString(".")
		}
		b.WriteString(u.Obj().Name())
	case *types.Alias:
		if pkg := u.Obj().Pkg(); pkg != nil {
			b.WriteString(pkg.Name())
			b.WriteString(".")
		}
		b.WriteString(u.Obj().Name())
	case *types.Pointer:
		b.WriteString("*")
		writeTypeNoArgs(b, u.Elem())
	case *types.Slice:
		b.WriteString("[]")
		writeTypeNoArgs(b, u.Elem())
	case *types.Array:
		fmt.Fprintf(b, "[%d]", u.Len())
		writeTypeNoArgs(b, u.Elem())
	case *types.Map:
		b.WriteString("map[")
		writeTypeNoArgs(b, u.Key())
		b.WriteString("]")
		writeTypeNoArgs(b, u.Elem())
	case *types.Chan:
		switch u.Dir() {
		case types.SendOnly:
			b.WriteString("chan<- ")
		case types.RecvOnly:
			b.WriteString("<-chan ")
		default:
			b.WriteString("chan ")
		}
		writeTypeNoArgs(b, u.Elem())
	default:
		// basic types, type parameters, struct / interface / function literals: the standard rendering, with the
		// type arguments of generic named types inside them removed (a bracket group directly after an identifier
		// that is not the keyword map)
		s := types.TypeString(t, qual)
		b.WriteString(stripTypeArgs(s))
	}
}

var reIdentBracket = regexp.MustCompile(`([A-Za-z0-9_]+)\[[^\[\]]*\]`)

func stripTypeArgs(s string) string {
	for {
		n := reIdentBracket.ReplaceAllStringFunc(s, func(m string) string {
			sub := reIdentBracket.FindStringSubmatch(m)
			if sub[1] == "map" {
				return strings.Replace(m, "[", "\x00", 1) // protect, restored below
			}
			return sub[1]
		})
		if n == s {
			break
		}
		s = n
	}
	return strings.ReplaceAll(s, "\x00", "[")
}

// LookupGoType resolves a type written in a contract: "*Name", "Name", "pkg.Name", "[]Name".
func (e *Engine) LookupGoType(s string, home *types.Package) types.Type {
	s = strings.TrimSpace(s)
	if s == "struct{}" {
		return types.NewStruct(nil, nil)
	}
	if strings.HasPrefix(s, "*") {
		t := e.LookupGoType(s[1:], home)
		if t == nil {
			return nil
		}
		return types.NewPointer(t)
	}
	if strings.HasPrefix(s, "[]") {
		t := e.LookupGoType(s[2:], home)
		if t == nil {
			return nil
		}
		return types.NewSlice(t)
	}
	pkg := home
	name := s
	if i := strings.LastIndex(s, "."); i >= 0 {
		pn := s[:i]
		name = s[i+1:]
		if p, ok := e.ByName[pn]; ok {
			pkg = p.Types
		} else {
			return nil
		}
	}
	if pkg == nil {
		return nil
	}
	if o := pkg.Scope().Lookup(name); o != nil {
		if tn, ok := o.(*types.TypeName); ok {
			return tn.Type()
		}
	}
	if o := types.Universe.Lookup(name); o != nil {
		if tn, ok := o.(*types.TypeName); ok {
			return tn.Type()
		}
	}
	return nil
}

// LocalNames lists the local variables (and named results, not parameters) a function declares, in source order.
func (e *Engine) LocalNames(fn *ssa.Function) []string {
	syn := fn.Syntax()
	if syn == nil {
		return nil
	}
	var info *types.Info
	for _, p := range e.ModPkgs {
		if p.Types == fn.Pkg.Pkg {
			info = p.TypesInfo
		}
	}
	if info == nil {
		return nil
	}
	params := map[string]bool{}
	for _, p := range fn.Params {
		params[p.Name()] = true
	}
	type nv struct {
		pos  token.Pos
		name string
	}
	var all []nv
	ast.Inspect(syn, func(n ast.Node) bool {
		if lit, ok := n.(*ast.FuncLit); ok && ast.Node(lit) != syn {
			return false // nested closures have their own list
		}
		id, ok := n.(*ast.Ident)
		if !ok || id.Name == "_" {
			return true
		}
		if v, ok := info.Defs[id].(*types.Var); ok && !v.IsField() && !params[id.Name] {
			all = append(all, nv{id.Pos(), id.Name})
		}
		return true
	})
	sort.Slice(all, func(i, j int) bool { return all[i].pos < all[j].pos })
	var out []string
	for _, x := range all {
		out = append(out, x.name)
	}
	return out
}

// renamedLocals maps reference names to current names when the function declares the same number of locals and
// they differ only by name at some positions.
func (e *Engine) renamedLocals(key string, fn *ssa.Function) map[string]string {
	ref, ok := e.LocalsRef[key]
	if !ok {
		return nil
	}
	cur := e.LocalNames(fn)
	if len(ref) != len(cur) {
		return nil
	}
	curSet := map[string]bool{}
	for _, n := range cur {
		curSet[n] = true
	}
	out := map[string]string{}
	for i := range ref {
		if ref[i] != cur[i] && !curSet[ref[i]] {
			out[ref[i]] = cur[i]
		}
	}
	return out
}

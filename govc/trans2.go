package govc

import (
	"fmt"
	"go/ast"
	"go/token"
	"go/types"
	"sort"
	"strings"

	"golang.org/x/tools/go/ssa"
)

// FuncVC is the result of translating one function under contract.
type FuncVC struct {
	Key         string
	Prelude     string
	Asserts     []string
	Obls        []*Obligation
	Notes       []string
	Unsupported []string
	Trusted     []string
	Loops       int
	Instrs      int
	File        string
	Err         error
	IfaceSorts  []string
}

// TranslateFunc builds the verification conditions of the function with the given contract key.
func (e *Engine) TranslateFunc(key string) *FuncVC {
	fn := e.LookupFunc(key)
	spec := e.Specs.Funcs["func:"+key]
	if fn == nil {
		return &FuncVC{Key: key, Err: fmt.Errorf("anchor: function %s not found in the loaded packages", key)}
	}
	if spec == nil {
		spec = &FuncSpec{Kind: "func", Key: key, Loops: map[int]*LoopSpec{}, Flags: map[string]string{}}
	}
	if len(fn.Blocks) == 0 {
		return &FuncVC{Key: key, Err: fmt.Errorf("function %s has no body", key)}
	}
	var known map[string]Sort
	var vc *FuncVC
	for pass := 1; pass <= 2; pass++ {
		tr := &fnTrans{eng: e, fn: fn, spec: spec, key: key, pass: pass, known: known, renamed: e.renamedLocals(key, fn)}
		vc = tr.run()
		if vc.Err != nil {
			return vc
		}
		known = tr.compSort
	}
	return vc
}

func (tr *fnTrans) run() (vc *FuncVC) {
	fn := tr.fn
	home := fn.Pkg
	if home == nil && fn.Origin() != nil {
		home = fn.Origin().Pkg
	}
	var homeT *types.Package
	if home != nil {
		homeT = home.Pkg
	}
	tr.c = newSmtCtx(tr.eng, homeT)
	tr.compSort = map[string]Sort{}
	tr.vals = map[ssa.Value]Term{}
	tr.tuples = map[ssa.Value][]Term{}
	tr.lifted = map[*ssa.Alloc]bool{}
	tr.blockOut = map[*ssa.BasicBlock]*State{}
	tr.outGuard = map[*ssa.BasicBlock]string{}
	tr.hdrLoop = map[*ssa.BasicBlock]*loopInfo{}
	tr.backEdge = map[[2]int]bool{}
	tr.counters = map[string]int{}
	tr.params = map[string]Term{}
	tr.debug = map[string][]ssa.Value{}
	tr.debugAddr = map[string]*ssa.Alloc{}
	tr.props = tr.spec.Props
	for _, at := range tr.spec.Ats {
		at.Used = false
	}
	tr.nonblocking = tr.spec.Flags["nonblocking"] != ""
	vc = &FuncVC{Key: tr.key}
	defer func() {
		if r := recover(); r != nil {
			if ee, ok := r.(evalErr); ok {
				vc.Err = fmt.Errorf("%s: %s", tr.key, ee.msg)
				return
			}
			if s, ok := r.(string); ok {
				vc.Err = fmt.Errorf("%s: translation failed: %s", tr.key, s)
				return
			}
			panic(r)
		}
	}()
	for n, s := range tr.known {
		tr.regComp(n, s)
	}
	tr.regComp("$clock", "Int")
	tr.entry = &State{comps: map[string]string{}}
	tr.cur = tr.entry.clone()
	tr.guard = "true"

	// debug references
	for _, b := range fn.Blocks {
		for _, ins := range b.Instrs {
			if d, ok := ins.(*ssa.DebugRef); ok {
				if id, ok := d.Expr.(interface{ String() string }); ok {
					name := id.String()
					if d.IsAddr {
						if a, ok := d.X.(*ssa.Alloc); ok {
							tr.debugAddr[name] = a
						}
					} else {
						tr.debug[name] = append(tr.debug[name], d.X)
					}
				}
			}
			vc.Instrs++
		}
	}

	// parameters
	env := map[string]Term{}
	allParams := []ssa.Value{}
	for _, fv := range fn.FreeVars {
		allParams = append(allParams, fv)
	}
	for _, p := range fn.Params {
		allParams = append(allParams, p)
	}
	for i, p := range allParams {
		t := tr.val(p)
		tr.wf(t, p.Type())
		env[p.Name()] = t
		if i < len(tr.spec.Params) {
			env[tr.spec.Params[i]] = t
		}
	}
	tr.params = env
	tr.assume(app("<=", "0", tr.clock(tr.cur)))

	// requires
	ev := &evalCtx{tr: tr, env: env, cur: tr.entry, old: tr.entry}
	for i, r := range tr.spec.Requires {
		s, err := ev.EvalBool(r.E)
		if err != nil {
			panic(evalErr{fmt.Sprintf("requires %d (%s): %v", i, r.Where, err)})
		}
		tr.assume(s)
	}

	tr.findLoops()
	vc.Loops = len(tr.loops)
	order := tr.rpo()
	for _, b := range order {
		tr.enterBlock(b)
		for i, ins := range b.Instrs {
			tr.curIdx = i
			tr.instr(ins)
		}
	}
	for _, li := range tr.loops {
		if li.spec == nil {
			continue
		}
		for i, c := range li.spec.IterEnsures {
			label := c.Label
			if label == "" {
				label = fmt.Sprint(i)
			}
			if tr.iterCovered[fmt.Sprintf("%d/%s", li.ord, label)] == 0 {
				tr.obligeG("true", "anchor", fmt.Sprintf("anchor.loop%d.iter.%s", li.ord, label), "false", token.NoPos, tr.propsOfLabel(c.Label), "iter_ensures clause evaluates on no back edge")
			}
		}
	}
	for _, at := range tr.spec.Ats {
		if !at.Used {
			tr.obligeG("true", "anchor", "anchor.at_call."+at.Expr, "false", token.NoPos, nil, "no call matches this anchor any more")
		}
	}
	if tr.spec.Flags["vacuity"] != "off" {
		// planted obligation: the entry must be reachable under the preconditions
		tr.obls = append(tr.obls, &Obligation{Name: tr.key + ".vacuity.requires_sat", Func: tr.key, Kind: "vacuity", Label: "vacuity.requires_sat",
			Guard: "true", Goal: "false", Planted: true, Props: tr.props})
	}

	sd := tr.specDecls()
	vc.Prelude = tr.c.prelude() + sd
	vc.Asserts = tr.asserts
	vc.Obls = tr.obls
	vc.Notes = tr.notes
	vc.Unsupported = tr.unsup
	for n := range tr.c.trusted {
		vc.Trusted = append(vc.Trusted, n)
	}
	sort.Strings(vc.Trusted)
	for s := range tr.c.ifaceCtor {
		vc.IfaceSorts = append(vc.IfaceSorts, s)
	}
	sort.Strings(vc.IfaceSorts)
	return vc
}

// ---------------------------------------------------------------- CFG

func (tr *fnTrans) findLoops() {
	fn := tr.fn
	byHeader := map[*ssa.BasicBlock]*loopInfo{}
	for _, b := range fn.Blocks {
		for _, s := range b.Succs {
			if s.Dominates(b) {
				tr.backEdge[[2]int{b.Index, s.Index}] = true
				li := byHeader[s]
				if li == nil {
					li = &loopInfo{header: s, body: map[*ssa.BasicBlock]bool{s: true}, modComps: map[string]bool{}}
					byHeader[s] = li
				}
				li.backs = append(li.backs, b)
			}
		}
	}
	var hs []*ssa.BasicBlock
	for h := range byHeader {
		hs = append(hs, h)
	}
	sort.Slice(hs, func(i, j int) bool { return hs[i].Index < hs[j].Index })
	for i, h := range hs {
		li := byHeader[h]
		li.ord = i
		li.spec = tr.spec.Loops[i]
		// body: nodes that reach a back-edge source without passing the header
		var stack []*ssa.BasicBlock
		for _, b := range li.backs {
			if !li.body[b] {
				li.body[b] = true
				stack = append(stack, b)
			}
		}
		for len(stack) > 0 {
			b := stack[len(stack)-1]
			stack = stack[:len(stack)-1]
			for _, p := range b.Preds {
				if !li.body[p] {
					li.body[p] = true
					stack = append(stack, p)
				}
			}
		}
		li.isRange = strings.HasPrefix(h.Comment, "rangeindex")
		tr.loops = append(tr.loops, li)
		tr.hdrLoop[h] = li
	}
}

func (tr *fnTrans) rpo() []*ssa.BasicBlock {
	seen := map[*ssa.BasicBlock]bool{}
	var post []*ssa.BasicBlock
	var dfs func(b *ssa.BasicBlock)
	dfs = func(b *ssa.BasicBlock) {
		seen[b] = true
		for _, s := range b.Succs {
			if tr.backEdge[[2]int{b.Index, s.Index}] || seen[s] {
				continue
			}
			dfs(s)
		}
		post = append(post, b)
	}
	dfs(tr.fn.Blocks[0])
	for i, j := 0, len(post)-1; i < j; i, j = i+1, j-1 {
		post[i], post[j] = post[j], post[i]
	}
	return post
}

func (tr *fnTrans) edgeCond(p, b *ssa.BasicBlock) string {
	last := p.Instrs[len(p.Instrs)-1]
	if iff, ok := last.(*ssa.If); ok {
		c := tr.val(iff.Cond).S
		if p.Succs[0] == b && p.Succs[1] == b {
			return "true"
		}
		if p.Succs[0] == b {
			return c
		}
		return not(c)
	}
	return "true"
}

type inEdge struct {
	p     *ssa.BasicBlock
	guard string
	pidx  int
}

func (tr *fnTrans) enterBlock(b *ssa.BasicBlock) {
	tr.curBlock = b
	if b == tr.fn.Blocks[0] {
		return
	}
	var edges []inEdge
	for i, p := range b.Preds {
		if tr.backEdge[[2]int{p.Index, b.Index}] {
			continue
		}
		og, ok := tr.outGuard[p]
		if !ok {
			continue // unreachable predecessor
		}
		eg := tr.c.freshConst(fmt.Sprintf("e%d_%d", p.Index, b.Index), "Bool")
		tr.asserts = append(tr.asserts, app("=", eg, and(og, tr.edgeCond(p, b))))
		edges = append(edges, inEdge{p, eg, i})
	}
	reach := tr.c.freshConst(fmt.Sprintf("reach%d", b.Index), "Bool")
	var egs []string
	for _, e := range edges {
		egs = append(egs, e.guard)
	}
	tr.asserts = append(tr.asserts, app("=", reach, or(egs...)))
	li := tr.hdrLoop[b]
	if li != nil {
		tr.loopMods(li)
	}
	// merge states
	st := &State{comps: map[string]string{}}
	for _, comp := range tr.allComps() {
		if li != nil && (li.modAll && !strings.HasPrefix(comp, "L:") && comp != "$clock" || li.modComps[comp]) {
			st.comps[comp] = tr.c.freshConst(comp, tr.compSort[comp])
			continue
		}
		same := true
		first := ""
		for i, e := range edges {
			t := tr.get(tr.blockOut[e.p], comp, tr.compSort[comp])
			if i == 0 {
				first = t
			} else if t != first {
				same = false
			}
		}
		if len(edges) == 0 {
			continue
		}
		if same {
			st.comps[comp] = first
			continue
		}
		nv := tr.c.freshConst(comp, tr.compSort[comp])
		for _, e := range edges {
			tr.asserts = append(tr.asserts, imp(e.guard, app("=", nv, tr.get(tr.blockOut[e.p], comp, tr.compSort[comp]))))
		}
		st.comps[comp] = nv
	}
	if li != nil {
		// the clock only grows
		oldClocks := []string{}
		for _, e := range edges {
			oldClocks = append(oldClocks, tr.clock(tr.blockOut[e.p]))
		}
		nc := tr.c.freshConst("$clock", "Int")
		st.comps["$clock"] = nc
		for i, e := range edges {
			tr.asserts = append(tr.asserts, imp(e.guard, app("<=", oldClocks[i], nc)))
		}
	}
	tr.cur = st
	tr.guard = reach
	// phis
	var phis []*ssa.Phi
	for _, ins := range b.Instrs {
		if ph, ok := ins.(*ssa.Phi); ok {
			phis = append(phis, ph)
		} else {
			break
		}
	}
	for _, ph := range phis {
		s := tr.c.sortOf(ph.Type())
		t := Term{tr.c.freshConst(ph.Name()+"_"+ph.Comment, s), s, ph.Type()}
		tr.vals[ph] = t
	}
	for _, ph := range phis {
		t := tr.vals[ph]
		if li == nil {
			for _, e := range edges {
				tr.asserts = append(tr.asserts, imp(e.guard, app("=", t.S, tr.val(ph.Edges[e.pidx]).S)))
			}
		} else {
			tr.wf(t, ph.Type())
		}
	}
	if li == nil {
		return
	}
	li.hdrState = st.clone()
	// invariant on entry edges
	var okEdges []string
	for _, e := range edges {
		ov := map[ssa.Value]Term{}
		for _, ph := range phis {
			ov[ph] = tr.val(ph.Edges[e.pidx])
		}
		goals := tr.checkInvariants(li, e.guard, tr.blockOut[e.p], ov, "entry")
		okEdges = append(okEdges, and(append([]string{e.guard}, goals...)...))
	}
	// The header is only entered (as far as the rest of the proof is concerned) along an edge on which the
	// invariants held: otherwise assuming an invariant that mentions nothing the loop changes would also "prove"
	// its own entry obligation.
	hdrOK := tr.c.freshConst(fmt.Sprintf("hdrok%d", b.Index), "Bool")
	tr.asserts = append(tr.asserts, app("=", hdrOK, or(okEdges...)))
	tr.guard = hdrOK
	// assume invariants at the header
	ev := tr.loopEval(li, tr.cur, nil)
	for _, inv := range tr.autoInvariants(li, phis, nil, tr.cur) {
		if i := strings.Index(inv, "|("); i >= 0 && (strings.HasPrefix(inv, "frame:") || strings.HasPrefix(inv, "freshslice:")) {
			inv = inv[i+1:]
		}
		tr.assume(inv)
	}
	if li.spec != nil {
		for i, inv := range li.spec.Invs {
			s, err := ev.EvalBool(inv.E)
			if err != nil {
				panic(evalErr{fmt.Sprintf("loop %d invariant %d (%s): %v", li.ord, i, inv.Where, err)})
			}
			tr.assume(s)
		}
		li.measure0 = nil
		for _, m := range li.spec.Decreases {
			t, err := ev.Eval(m)
			if err != nil {
				panic(evalErr{fmt.Sprintf("loop %d decreases: %v", li.ord, err)})
			}
			li.measure0 = append(li.measure0, t)
		}
	} else if !li.isRange {
		tr.note("loop %d has no invariant; termination not verified", li.ord)
	}
}

// autoInvariants: range-index loops keep -1 <= idx < len.
func (tr *fnTrans) autoInvariants(li *loopInfo, phis []*ssa.Phi, ov map[ssa.Value]Term, st *State) []string {
	var out []string
	// frame: heap components that the function may not modify keep their entry value on every object
	// that existed at entry, also inside loops that write to fresh objects of the same component
	if !tr.spec.ModAll && tr.spec.Flags["noframe"] == "" && !li.modAll {
		allowed := map[string]bool{}
		for _, cn := range tr.specMods(tr.spec) {
			allowed[cn] = true
		}
		var comps []string
		for cn := range li.modComps {
			if allowed[cn] || strings.HasPrefix(cn, "L:") || cn == "$clock" || !strings.HasPrefix(tr.compSort[cn], "(Array Ref ") {
				continue
			}
			comps = append(comps, cn)
		}
		sort.Strings(comps)
		for _, cn := range comps {
			cur := tr.get(st, cn, tr.compSort[cn])
			old := q(cn + "@0")
			out = append(out, "frame:"+cn+"|"+fmt.Sprintf("(forall ((qv!x Ref)) (! (=> (< (allocT qv!x) %s) (= (select %s qv!x) (select %s qv!x))) :pattern ((select %s qv!x))))", tr.clock(tr.entry), cur, old, cur))
		}
	}
	// a loop-carried slice that is built by this function (fresh backing array, only appended to) stays fresh
	for _, ph := range phis {
		if _, isSlice := types.Unalias(ph.Type()).Underlying().(*types.Slice); !isSlice {
			continue
		}
		if !freshSlicePhi(ph) {
			continue
		}
		t := tr.vals[ph]
		if ov != nil {
			t = ov[ph]
		}
		if t.S == "" {
			continue
		}
		out = append(out, "freshslice:"+ph.Comment+"|"+and(app(">=", app("allocT", app("s_arr", t.S)), tr.clock(tr.entry)), not(app("=", app("s_arr", t.S), "nilref"))))
	}
	for _, ph := range phis {
		if ph.Comment != "rangeindex" {
			continue
		}
		t := tr.vals[ph]
		if ov != nil {
			t = ov[ph]
		}
		out = append(out, app("<=", "(- 1)", t.S))
		// find the bound: the header compares idx+1 < len
		for _, ins := range li.header.Instrs {
			if bo, ok := ins.(*ssa.BinOp); ok && bo.Op == token.LSS {
				if inc, ok := bo.X.(*ssa.BinOp); ok && inc.X == ph {
					if lenv, ok := tr.vals[bo.Y]; ok {
						out = append(out, or(app("=", t.S, "(- 1)"), app("<", t.S, lenv.S)))
					} else if cst, ok := bo.Y.(*ssa.Const); ok {
						out = append(out, or(app("=", t.S, "(- 1)"), app("<", t.S, tr.constTerm(cst).S)))
					}
				}
			}
		}
	}
	return out
}

func (tr *fnTrans) checkInvariants(li *loopInfo, guard string, st *State, ov map[ssa.Value]Term, what string) []string {
	n0 := len(tr.obls)
	tr.checkInvariants1(li, guard, st, ov, what)
	var goals []string
	for _, o := range tr.obls[n0:] {
		goals = append(goals, o.Goal)
	}
	return goals
}

func (tr *fnTrans) checkInvariants1(li *loopInfo, guard string, st *State, ov map[ssa.Value]Term, what string) {
	what = fmt.Sprintf("%s#%d", what, tr.ord(fmt.Sprintf("loop%d.%s", li.ord, what)))
	var phis []*ssa.Phi
	for _, ins := range li.header.Instrs {
		if ph, ok := ins.(*ssa.Phi); ok {
			phis = append(phis, ph)
		}
	}
	nIdx := 0
	for _, inv := range tr.autoInvariants(li, phis, ov, st) {
		if i := strings.Index(inv, "|("); i >= 0 && strings.HasPrefix(inv, "frame:") {
			tr.obligeG(guard, "frame", fmt.Sprintf("loop%d.autoframe.%s.%s", li.ord, inv[len("frame:"):i], what), inv[i+1:], token.NoPos, nil, "loop keeps unlisted heap component on pre-existing objects")
			continue
		}
		if i := strings.Index(inv, "|("); i >= 0 && strings.HasPrefix(inv, "freshslice:") {
			tr.obligeG(guard, "frame", fmt.Sprintf("loop%d.autofresh.%s.%s", li.ord, inv[len("freshslice:"):i], what), inv[i+1:], token.NoPos, nil, "slice built by this function keeps a backing array allocated by this function")
			continue
		}
		tr.obligeG(guard, "inv", fmt.Sprintf("loop%d.autoidx%d.%s", li.ord, nIdx, what), inv, token.NoPos, nil, "range index bounds")
		nIdx++
	}
	if li.spec == nil {
		return
	}
	ev := tr.loopEval(li, st, ov)
	for i, inv := range li.spec.Invs {
		s, err := ev.EvalBool(inv.E)
		if err != nil {
			panic(evalErr{fmt.Sprintf("loop %d invariant %d (%s): %v", li.ord, i, inv.Where, err)})
		}
		label := inv.Label
		if label == "" {
			label = fmt.Sprint(i)
		}
		tr.obligeG(guard, "inv", fmt.Sprintf("loop%d.inv.%s.%s", li.ord, label, what), s, token.NoPos, tr.propsOfLabel(inv.Label), inv.Src)
		tr.obls[len(tr.obls)-1].Pos = fmt.Sprintf("edge from block %d (%s)", tr.curBlock.Index, tr.curBlock.Comment)
	}
	if strings.HasPrefix(what, "preserved") && len(li.measure0) > 0 {
		var cur []Term
		for _, m := range li.spec.Decreases {
			t, err := ev.Eval(m)
			if err != nil {
				panic(evalErr{fmt.Sprintf("loop %d decreases: %v", li.ord, err)})
			}
			cur = append(cur, t)
		}
		tr.obligeG(guard, "decreases", fmt.Sprintf("loop%d.decreases.%s", li.ord, what), lexLess(cur, li.measure0), token.NoPos, nil, "")
	}
}

// lexLess: cur < old lexicographically, each component bounded below by 0.
func lexLess(cur, old []Term) string {
	res := "false"
	for i := len(cur) - 1; i >= 0; i-- {
		lt := and(app("<", cur[i].S, old[i].S), app("<=", "0", old[i].S))
		eq := app("=", cur[i].S, old[i].S)
		res = or(lt, and(eq, res))
	}
	return res
}

// loopEval builds an evaluator whose identifiers resolve to the loop's source-level variables.
func (tr *fnTrans) loopEval(li *loopInfo, st *State, ov map[ssa.Value]Term) *evalCtx {
	return &evalCtx{tr: tr, env: tr.params, cur: st, old: tr.entry, names: func(_ *evalCtx, name string) (Term, bool) {
		return tr.resolveVar(name, li.header, st, ov)
	}}
}

// resolveVar finds the value a source variable holds at a program point: the start of block `at`
// (pointIdx < 0, used for loop invariants; ov overrides header phis) or just before instruction
// pointIdx of block `at` (used for at-call blocks).
func (tr *fnTrans) resolveVar(name string, at *ssa.BasicBlock, st *State, ov map[ssa.Value]Term) (Term, bool) {
	return tr.resolveVarAt(name, at, -1, st, ov)
}

type varCand struct {
	blk   *ssa.BasicBlock
	idx   int
	v     ssa.Value
	isPhi bool
}

func (tr *fnTrans) varCands(name string) []varCand {
	if tr.candCache == nil {
		tr.candCache = map[string][]varCand{}
		for _, b := range tr.fn.Blocks {
			for i, ins := range b.Instrs {
				switch x := ins.(type) {
				case *ssa.Phi:
					if x.Comment != "" {
						tr.candCache[x.Comment] = append(tr.candCache[x.Comment], varCand{b, i, x, true})
					}
				case *ssa.DebugRef:
					if x.IsAddr {
						continue
					}
					if id, ok := x.Expr.(*ast.Ident); ok {
						tr.candCache[id.Name] = append(tr.candCache[id.Name], varCand{b, i, x.X, false})
					}
				}
			}
		}
	}
	return tr.candCache[name]
}

func domDepth(b *ssa.BasicBlock) int {
	d := 0
	for x := b; x != nil; x = x.Idom() {
		d++
	}
	return d
}

func (tr *fnTrans) resolveVarAt(name string, at *ssa.BasicBlock, pointIdx int, st *State, ov map[ssa.Value]Term) (Term, bool) {
	t, ok := tr.resolveVarAt1(name, at, pointIdx, st, ov)
	if !ok {
		// a local that was renamed since the reference tree: same position in declaration order
		if nn, has := tr.renamed[name]; has {
			return tr.resolveVarAt1(nn, at, pointIdx, st, ov)
		}
	}
	return t, ok
}

func (tr *fnTrans) resolveVarAt1(name string, at *ssa.BasicBlock, pointIdx int, st *State, ov map[ssa.Value]Term) (Term, bool) {
	if name == "rangeidx" {
		for b := at; b != nil; b = b.Idom() {
			for _, ins := range b.Instrs {
				ph, ok := ins.(*ssa.Phi)
				if !ok {
					break
				}
				if ph.Comment == "rangeindex" {
					var t Term
					if tv, ok := ov[ph]; ok && b == at {
						t = tv
					} else if tv, ok := tr.vals[ph]; ok {
						t = tv
					} else {
						continue
					}
					return Term{"(+ " + t.S + " 1)", "Int", types.Typ[types.Int]}, true
				}
			}
		}
		return Term{}, false
	}
	if a, ok := tr.debugAddr[name]; ok {
		if tr.isLifted(a) {
			if _, seen := tr.vals[a]; seen {
				return tr.load(st, tr.locOf(a)), true
			}
		} else if t, ok := tr.vals[a]; ok && t.S != "" {
			return tr.load(st, tr.locOf(a)), true
		}
	}
	bestRank := [2]int{-1, -1}
	var best Term
	found := false
	for _, c := range tr.varCands(name) {
		var t Term
		ok := false
		switch {
		case c.blk == at:
			if c.isPhi {
				if tv, has := ov[c.v]; has {
					t, ok = tv, true
				} else if tv, has := tr.vals[c.v]; has {
					t, ok = tv, true
				}
			} else if pointIdx < 0 {
				// loop header: values that are pure functions of the phis
				if ins, isIns := c.v.(ssa.Instruction); isIns && ins.Block() == at {
					t, ok = tr.termUnder(c.v, ov, at)
				} else {
					t, ok = tr.valIfKnown(c.v)
				}
			} else if c.idx < pointIdx {
				t, ok = tr.valIfKnown(c.v)
			}
		case c.blk.Dominates(at):
			t, ok = tr.valIfKnown(c.v)
		default:
			// loop header: a value defined in the header itself (e.g. the range index), referenced later
			_, vIsPhi := c.v.(*ssa.Phi)
			if ins, isIns := c.v.(ssa.Instruction); isIns && pointIdx < 0 && ins.Block() == at && !c.isPhi && !vIsPhi {
				t, ok = tr.termUnder(c.v, ov, at)
				if ok && t.S != "" {
					rank := [2]int{domDepth(at), 1 << 20}
					if rank[0] > bestRank[0] || rank[0] == bestRank[0] && rank[1] > bestRank[1] {
						bestRank, best, found = rank, t, true
					}
				}
				continue
			}
			// the reference sits elsewhere, but the value itself is defined in a dominating block
			if ins, isIns := c.v.(ssa.Instruction); isIns && !c.isPhi && !vIsPhi && ins.Block() != at && ins.Block().Dominates(at) {
				if tv, has := tr.vals[c.v]; has && tv.S != "" {
					rank := [2]int{domDepth(ins.Block()), -1}
					if rank[0] > bestRank[0] || rank[0] == bestRank[0] && rank[1] > bestRank[1] {
						bestRank, best, found = rank, tv, true
					}
				}
			}
			continue
		}
		if !ok || t.S == "" {
			continue
		}
		rank := [2]int{domDepth(c.blk), c.idx}
		if rank[0] > bestRank[0] || rank[0] == bestRank[0] && rank[1] > bestRank[1] {
			bestRank, best, found = rank, t, true
		}
	}
	return best, found
}

func (tr *fnTrans) valIfKnown(v ssa.Value) (Term, bool) {
	switch v.(type) {
	case *ssa.Const, *ssa.Parameter, *ssa.FreeVar, *ssa.Function, *ssa.Global:
		return tr.val(v), true
	}
	t, ok := tr.vals[v]
	return t, ok
}

// termUnder recomputes a pure value of block b with some phis replaced.
func (tr *fnTrans) termUnder(v ssa.Value, ov map[ssa.Value]Term, b *ssa.BasicBlock) (Term, bool) {
	if t, ok := ov[v]; ok {
		return t, true
	}
	ins, isIns := v.(ssa.Instruction)
	if !isIns || ins.Block() != b {
		return tr.valIfKnown(v)
	}
	if len(ov) == 0 {
		if t, ok := tr.vals[v]; ok {
			return t, true
		}
	}
	switch x := v.(type) {
	case *ssa.BinOp:
		a, ok1 := tr.termUnder(x.X, ov, b)
		c, ok2 := tr.termUnder(x.Y, ov, b)
		if ok1 && ok2 {
			return tr.binop(x, a, c, false), true
		}
	case *ssa.Convert:
		a, ok := tr.termUnder(x.X, ov, b)
		if ok {
			return tr.convert(x, a), true
		}
	case *ssa.ChangeType:
		a, ok := tr.termUnder(x.X, ov, b)
		if ok {
			a.T = x.Type()
			return a, true
		}
	}
	t, ok := tr.vals[v]
	return t, ok
}

// instrMods adds the components one instruction may write to mods; it reports true when that cannot be bounded
// (a call with no contract whose body is not available, a go statement).
func (tr *fnTrans) instrMods(ins ssa.Instruction, mods map[string]bool, seen map[*ssa.Function]bool) bool {
	switch x := ins.(type) {
	case *ssa.Store:
		if seen != nil && addrRootIsOwnAlloc(x.Addr) {
			// inside an inferred callee: a store into an object the callee allocated itself cannot change any
			// object that existed before the call
			break
		}
		tr.compsOfLoc(tr.locShape(x.Addr), mods)
	case *ssa.MapUpdate:
		for _, cn := range tr.mapComps(x.Map.Type()) {
			mods[cn] = true
		}
	case *ssa.Send:
		mods["G:sent"] = true
		mods["G:senttime"] = true
		mods["G:evclock"] = true
		mods["G:sentlog_"+tr.c.sortOf(tr.chanElem(x.Chan.Type()))] = true
	case *ssa.Select:
		mods["G:sent"] = true
		mods["G:recvd"] = true
		mods["G:senttime"] = true
		mods["G:evclock"] = true
		for _, st := range x.States {
			mods["G:sentlog_"+tr.c.sortOf(tr.chanElem(st.Chan.Type()))] = true
			mods["G:recvlog_"+tr.c.sortOf(tr.chanElem(st.Chan.Type()))] = true
		}
	case *ssa.UnOp:
		if x.Op == token.ARROW {
			mods["G:recvd"] = true
			mods["G:recvlog_"+tr.c.sortOf(tr.chanElem(x.X.Type()))] = true
		}
	case *ssa.MakeChan:
		for _, g := range []string{"G:chcap", "G:sent", "G:recvd", "G:closed"} {
			mods[g] = true
		}
	case *ssa.MakeMap:
		for _, cn := range tr.mapComps(x.Type()) {
			mods[cn] = true
		}
	case *ssa.Alloc, *ssa.MakeSlice, *ssa.MakeClosure:
	case ssa.CallInstruction:
		if _, isGo := ins.(*ssa.Go); isGo {
			return seen != nil // inside an inferred callee a go statement is unbounded; in a loop it is handled elsewhere
		}
		cm, all := tr.calleeMods(x.Common())
		if all {
			// no contract: a module function whose body is available has the write set of its body
			if callee := x.Common().StaticCallee(); callee != nil && !x.Common().IsInvoke() {
				im, iall := tr.inferredMods(callee, seen)
				if !iall {
					for m := range im {
						mods[m] = true
					}
					return false
				}
			}
			return true
		}
		for _, m := range cm {
			mods[m] = true
		}
	}
	return false
}

// addrRootIsOwnAlloc: the address is (a field / element of) an allocation made by the same function.
func addrRootIsOwnAlloc(v ssa.Value) bool {
	for {
		switch x := v.(type) {
		case *ssa.Alloc:
			return true
		case *ssa.FieldAddr:
			v = x.X
		case *ssa.IndexAddr:
			// element of an array behind a pointer: follow the pointer only when it is the allocation itself
			v = x.X
		default:
			return false
		}
	}
}

// inferredMods over-approximates what a function without a contract may write: the union over its
// instructions, following calls to other uncontracted functions of the module.  Locals of the callee are its own.
func (tr *fnTrans) inferredMods(fn *ssa.Function, seen map[*ssa.Function]bool) (map[string]bool, bool) {
	if fn == nil || len(fn.Blocks) == 0 || fn.Pkg == nil || !strings.HasPrefix(fn.Pkg.Pkg.Path(), "github.com/vimeo/dials") {
		return nil, true
	}
	if seen == nil {
		seen = map[*ssa.Function]bool{}
	}
	if seen[fn] {
		return map[string]bool{}, false
	}
	seen[fn] = true
	mods := map[string]bool{}
	for _, b := range fn.Blocks {
		for _, ins := range b.Instrs {
			if tr.instrMods(ins, mods, seen) {
				return nil, true
			}
		}
	}
	for _, a := range fn.AnonFuncs {
		am, all := tr.inferredMods(a, seen)
		if all {
			return nil, true
		}
		for m := range am {
			mods[m] = true
		}
	}
	for m := range mods {
		if strings.HasPrefix(m, "L:") {
			delete(mods, m)
		}
	}
	return mods, false
}

// loopMods computes the components written inside the loop.
func (tr *fnTrans) loopMods(li *loopInfo) {
	for b := range li.body {
		for _, ins := range b.Instrs {
			if _, isGo := ins.(*ssa.Go); isGo {
				continue
			}
			if tr.instrMods(ins, li.modComps, nil) {
				li.modAll = true
			}
		}
	}
	for b := range li.body {
		for _, ins := range b.Instrs {
			var cht types.Type
			switch x := ins.(type) {
			case *ssa.Send:
				cht = x.Chan.Type()
			case *ssa.UnOp:
				if x.Op == token.ARROW {
					cht = x.X.Type()
				}
			case *ssa.Select:
				for _, st := range x.States {
					if cs := tr.chanSpec(st.Chan.Type()); cs != nil {
						for _, g := range append(append([]GhostAssign{}, cs.OnSend...), cs.OnRecv...) {
							li.modComps["G:"+g.Name] = true
						}
					}
				}
			}
			if cht != nil {
				if cs := tr.chanSpec(cht); cs != nil {
					for _, g := range append(append([]GhostAssign{}, cs.OnSend...), cs.OnRecv...) {
						li.modComps["G:"+g.Name] = true
					}
				}
			}
		}
	}
	if len(tr.spec.Ats) > 0 {
		for b := range li.body {
			for _, ins := range b.Instrs {
				ci, ok := ins.(ssa.CallInstruction)
				if !ok {
					continue
				}
				_ = ci
				tr.callText(ins.Pos())
				for _, at := range tr.matchAts(ins.Pos()) {
					for _, g := range at.Ghosts {
						li.modComps["G:"+g.Name] = true
					}
				}
			}
		}
	}
	for cn := range li.modComps {
		if _, ok := tr.compSort[cn]; !ok {
			if ks, ok := tr.known[cn]; ok {
				tr.regComp(cn, ks)
			} else if g, ok := tr.eng.Specs.GhostIx[strings.TrimPrefix(cn, "G:")]; ok && strings.HasPrefix(cn, "G:") {
				s, _, _ := tr.c.specSort(g.Sort)
				tr.regComp(cn, s)
			} else {
				delete(li.modComps, cn)
			}
		}
	}
}

// locShape is locOf without needing operand values (only the component names matter).
func (tr *fnTrans) locShape(v ssa.Value) loc {
	switch x := v.(type) {
	case *ssa.Alloc:
		elem := x.Type().(*types.Pointer).Elem()
		if tr.isLifted(x) {
			return loc{kind: locLocal, comp: "L:" + tr.allocName(x), t: elem}
		}
		return tr.refLoc("x", elem, true)
	case *ssa.FieldAddr:
		pt := types.Unalias(x.X.Type()).Underlying().(*types.Pointer)
		st, named, _ := derefStruct(pt)
		f := st.Field(x.Field)
		bl := tr.locShape(x.X)
		if bl.kind == locLocal {
			return loc{kind: locLocal, comp: bl.comp + "." + f.Name(), t: f.Type()}
		}
		if isStructType(f.Type()) {
			return loc{kind: locObj, base: "x", t: f.Type()}
		}
		return loc{kind: locField, comp: "H:" + structCanon(named) + "." + f.Name(), base: "x", t: f.Type()}
	case *ssa.IndexAddr:
		switch u := types.Unalias(x.X.Type()).Underlying().(type) {
		case *types.Slice:
			return tr.refLoc("x", u.Elem(), true)
		case *types.Pointer:
			return tr.refLoc("x", types.Unalias(u.Elem()).Underlying().(*types.Array).Elem(), true)
		}
	}
	pt := types.Unalias(v.Type()).Underlying().(*types.Pointer)
	return tr.refLoc("x", pt.Elem(), false)
}

// checkIterEnsures checks the per-iteration postconditions of loop li on the back edge leaving block b.
func (tr *fnTrans) checkIterEnsures(li *loopInfo, guard string, b *ssa.BasicBlock, ov map[ssa.Value]Term) {
	if li.spec == nil || len(li.spec.IterEnsures) == 0 {
		return
	}
	k := tr.ord(fmt.Sprintf("iter%d", li.ord))
	ev := &evalCtx{tr: tr, env: tr.params, cur: tr.cur, old: li.hdrState, oldIsHeader: true}
	ev.names = func(cx *evalCtx, name string) (Term, bool) {
		if cx.cur == li.hdrState {
			// inside old(): the value at the loop header of this iteration
			return tr.resolveVarAt(name, li.header, -1, li.hdrState, nil)
		}
		// loop-carried variables: the value flowing back into the header
		for _, ins := range li.header.Instrs {
			if ph, ok := ins.(*ssa.Phi); ok && ph.Comment == name {
				t, ok := ov[ph]
				return t, ok
			}
		}
		return tr.resolveVarAt(name, b, len(b.Instrs), cx.cur, nil)
	}
	for i, c := range li.spec.IterEnsures {
		s, err := ev.EvalBool(c.E)
		label := c.Label
		if label == "" {
			label = fmt.Sprint(i)
		}
		if err != nil {
			tr.note("loop %d iter_ensures %s skipped on back edge #%d (from block %d): %v", li.ord, label, k, b.Index, err)
			continue
		}
		if tr.iterCovered == nil {
			tr.iterCovered = map[string]int{}
		}
		tr.iterCovered[fmt.Sprintf("%d/%s", li.ord, label)]++
		tr.obligeG(guard, "iter", fmt.Sprintf("loop%d.iter.%s#%d", li.ord, label, k), s, token.NoPos, tr.propsOfLabel(c.Label), c.Src)
	}
}

// freshSlicePhi: every value flowing into the phi is a freshly made slice or an append to the phi itself
// (possibly through other phis of the same kind).
func freshSlicePhi(ph *ssa.Phi) bool {
	seen := map[ssa.Value]bool{}
	var ok func(v ssa.Value) bool
	ok = func(v ssa.Value) bool {
		if seen[v] {
			return true
		}
		seen[v] = true
		switch x := v.(type) {
		case *ssa.MakeSlice:
			return true
		case *ssa.Slice:
			if a, isA := x.X.(*ssa.Alloc); isA && a.Heap {
				return true
			}
			return false
		case *ssa.Phi:
			for _, e := range x.Edges {
				if !ok(e) {
					return false
				}
			}
			return true
		case *ssa.Call:
			if b, isB := x.Common().Value.(*ssa.Builtin); isB && b.Name() == "append" {
				return ok(x.Common().Args[0])
			}
			return false
		}
		return false
	}
	return ok(ph)
}

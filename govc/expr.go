package govc

// Contract expression language: lexer, AST and parser.
//
//   e ::= e <==> e | e ==> e | e || e | e && e | !e | e cmp e | e + e | e - e | e * e | e / e | e % e
//       | -e | e.f | e[i] | e[i := v] | f(e, ...) | old(e) | ( e ) | ident | int | "str" | true | false | nil
//       | forall x S, y S :: e | exists x S :: e | &e.f
//
// Sorts S are either SMT-level sort names (int, bool, Ref, Val, RType, Str, Iface, Slice, map[S]S)
// or a Go type of the package under contract written as *Name / Name.

import (
	"fmt"
	"strings"
	"unicode"
)

type tokKind int

const (
	tEOF tokKind = iota
	tIdent
	tInt
	tStr
	tOp
)

type ltok struct {
	k   tokKind
	s   string
	pos int
}

func lex(src string) ([]ltok, error) {
	var out []ltok
	i := 0
	for i < len(src) {
		c := src[i]
		switch {
		case c == ' ' || c == '\t' || c == '\n' || c == '\r':
			i++
		case unicode.IsLetter(rune(c)) || c == '_':
			j := i
			for j < len(src) && (unicode.IsLetter(rune(src[j])) || unicode.IsDigit(rune(src[j])) || src[j] == '_' || src[j] == '$') {
				j++
			}
			out = append(out, ltok{tIdent, src[i:j], i})
			i = j
		case unicode.IsDigit(rune(c)):
			j := i
			for j < len(src) && (unicode.IsDigit(rune(src[j])) || src[j] == '_' || src[j] == 'x' || (src[j] >= 'a' && src[j] <= 'f') || (src[j] >= 'A' && src[j] <= 'F')) {
				j++
			}
			out = append(out, ltok{tInt, strings.ReplaceAll(src[i:j], "_", ""), i})
			i = j
		case c == '"':
			j := i + 1
			for j < len(src) && src[j] != '"' {
				if src[j] == '\\' {
					j++
				}
				j++
			}
			if j >= len(src) {
				return nil, fmt.Errorf("unterminated string at %d in %q", i, src)
			}
			out = append(out, ltok{tStr, src[i+1 : j], i})
			i = j + 1
		default:
			ops := []string{"<==>", "==>", "::", ":=", "==", "!=", "<=", ">=", "&&", "||", "<", ">", "+", "-", "*", "/", "%", "!", "(", ")", "[", "]", ",", ".", "&", ":", "{", "}"}
			matched := false
			for _, op := range ops {
				if strings.HasPrefix(src[i:], op) {
					out = append(out, ltok{tOp, op, i})
					i += len(op)
					matched = true
					break
				}
			}
			if !matched {
				return nil, fmt.Errorf("unexpected character %q at %d in %q", c, i, src)
			}
		}
	}
	out = append(out, ltok{tEOF, "", len(src)})
	return out, nil
}

// Expr is a contract expression AST node.
type Expr struct {
	Op    string  // "ident","int","str","bool","nil","call","sel","index","update","old","forall","exists","addr", or an operator
	Name  string  // ident/call name, selector field, literal text
	Args  []*Expr // operands
	Vars  []BoundVar
	Trig  []*Expr   // all trigger terms (flattened, for dependency scans)
	Trigs [][]*Expr // alternative patterns: each {...} group is one multi-pattern
}

type BoundVar struct {
	Name string
	Sort string // raw sort text
}

func (e *Expr) String() string {
	switch e.Op {
	case "ident", "int", "bool", "nil":
		return e.Name
	case "str":
		return fmt.Sprintf("%q", e.Name)
	case "call":
		var a []string
		for _, x := range e.Args {
			a = append(a, x.String())
		}
		return e.Name + "(" + strings.Join(a, ", ") + ")"
	case "sel":
		return e.Args[0].String() + "." + e.Name
	case "index":
		return e.Args[0].String() + "[" + e.Args[1].String() + "]"
	case "update":
		return e.Args[0].String() + "[" + e.Args[1].String() + " := " + e.Args[2].String() + "]"
	case "old":
		return "old(" + e.Args[0].String() + ")"
	case "addr":
		return "&" + e.Args[0].String()
	case "forall", "exists":
		var vs []string
		for _, v := range e.Vars {
			vs = append(vs, v.Name+" "+v.Sort)
		}
		return e.Op + " " + strings.Join(vs, ", ") + " :: " + e.Args[0].String()
	case "neg", "!":
		return e.Op + e.Args[0].String()
	default:
		if len(e.Args) == 2 {
			return "(" + e.Args[0].String() + " " + e.Op + " " + e.Args[1].String() + ")"
		}
		return e.Op
	}
}

type parser struct {
	toks []ltok
	p    int
	src  string
}

func ParseExpr(src string) (*Expr, error) {
	toks, err := lex(src)
	if err != nil {
		return nil, err
	}
	ps := &parser{toks: toks, src: src}
	e, err := ps.parseIff()
	if err != nil {
		return nil, err
	}
	if ps.peek().k != tEOF {
		return nil, fmt.Errorf("trailing tokens at %d (%q) in %q", ps.peek().pos, ps.peek().s, src)
	}
	return e, nil
}

func (ps *parser) peek() ltok { return ps.toks[ps.p] }
func (ps *parser) next() ltok { t := ps.toks[ps.p]; ps.p++; return t }
func (ps *parser) isOp(s string) bool {
	t := ps.peek()
	return t.k == tOp && t.s == s
}
func (ps *parser) accept(s string) bool {
	if ps.isOp(s) {
		ps.p++
		return true
	}
	return false
}
func (ps *parser) expect(s string) error {
	if !ps.accept(s) {
		return fmt.Errorf("expected %q at %d (got %q) in %q", s, ps.peek().pos, ps.peek().s, ps.src)
	}
	return nil
}

func (ps *parser) parseIff() (*Expr, error) {
	l, err := ps.parseImp()
	if err != nil {
		return nil, err
	}
	for ps.accept("<==>") {
		r, err := ps.parseImp()
		if err != nil {
			return nil, err
		}
		l = &Expr{Op: "<==>", Args: []*Expr{l, r}}
	}
	return l, nil
}

func (ps *parser) parseImp() (*Expr, error) {
	l, err := ps.parseOr()
	if err != nil {
		return nil, err
	}
	if ps.accept("==>") {
		r, err := ps.parseImp()
		if err != nil {
			return nil, err
		}
		return &Expr{Op: "==>", Args: []*Expr{l, r}}, nil
	}
	return l, nil
}

func (ps *parser) parseOr() (*Expr, error) {
	l, err := ps.parseAnd()
	if err != nil {
		return nil, err
	}
	for ps.accept("||") {
		r, err := ps.parseAnd()
		if err != nil {
			return nil, err
		}
		l = &Expr{Op: "||", Args: []*Expr{l, r}}
	}
	return l, nil
}

func (ps *parser) parseAnd() (*Expr, error) {
	l, err := ps.parseCmp()
	if err != nil {
		return nil, err
	}
	for ps.accept("&&") {
		r, err := ps.parseCmp()
		if err != nil {
			return nil, err
		}
		l = &Expr{Op: "&&", Args: []*Expr{l, r}}
	}
	return l, nil
}

func (ps *parser) parseCmp() (*Expr, error) {
	l, err := ps.parseAdd()
	if err != nil {
		return nil, err
	}
	for _, op := range []string{"==", "!=", "<=", ">=", "<", ">"} {
		if ps.accept(op) {
			r, err := ps.parseAdd()
			if err != nil {
				return nil, err
			}
			return &Expr{Op: op, Args: []*Expr{l, r}}, nil
		}
	}
	return l, nil
}

func (ps *parser) parseAdd() (*Expr, error) {
	l, err := ps.parseMul()
	if err != nil {
		return nil, err
	}
	for {
		if ps.accept("+") {
			r, err := ps.parseMul()
			if err != nil {
				return nil, err
			}
			l = &Expr{Op: "+", Args: []*Expr{l, r}}
		} else if ps.accept("-") {
			r, err := ps.parseMul()
			if err != nil {
				return nil, err
			}
			l = &Expr{Op: "-", Args: []*Expr{l, r}}
		} else {
			return l, nil
		}
	}
}

func (ps *parser) parseMul() (*Expr, error) {
	l, err := ps.parseUnary()
	if err != nil {
		return nil, err
	}
	for {
		matched := false
		for _, op := range []string{"*", "/", "%"} {
			if ps.accept(op) {
				r, err := ps.parseUnary()
				if err != nil {
					return nil, err
				}
				l = &Expr{Op: op, Args: []*Expr{l, r}}
				matched = true
				break
			}
		}
		if !matched {
			return l, nil
		}
	}
}

func (ps *parser) parseUnary() (*Expr, error) {
	if ps.accept("!") {
		e, err := ps.parseUnary()
		if err != nil {
			return nil, err
		}
		return &Expr{Op: "!", Args: []*Expr{e}}, nil
	}
	if ps.accept("-") {
		e, err := ps.parseUnary()
		if err != nil {
			return nil, err
		}
		return &Expr{Op: "neg", Args: []*Expr{e}}, nil
	}
	if ps.accept("&") {
		e, err := ps.parsePostfix()
		if err != nil {
			return nil, err
		}
		return &Expr{Op: "addr", Args: []*Expr{e}}, nil
	}
	return ps.parsePostfix()
}

func (ps *parser) parsePostfix() (*Expr, error) {
	e, err := ps.parsePrimary()
	if err != nil {
		return nil, err
	}
	for {
		switch {
		case ps.accept("."):
			t := ps.next()
			if t.k != tIdent {
				return nil, fmt.Errorf("expected field name at %d in %q", t.pos, ps.src)
			}
			e = &Expr{Op: "sel", Name: t.s, Args: []*Expr{e}}
		case ps.accept("["):
			idx, err := ps.parseIff()
			if err != nil {
				return nil, err
			}
			if ps.accept(":=") {
				v, err := ps.parseIff()
				if err != nil {
					return nil, err
				}
				if err := ps.expect("]"); err != nil {
					return nil, err
				}
				e = &Expr{Op: "update", Args: []*Expr{e, idx, v}}
			} else {
				if err := ps.expect("]"); err != nil {
					return nil, err
				}
				e = &Expr{Op: "index", Args: []*Expr{e, idx}}
			}
		default:
			return e, nil
		}
	}
}

// parseSortText reads a sort up to ',' or '::' at bracket depth 0.
func (ps *parser) parseSortText() string {
	var sb strings.Builder
	depth := 0
	for {
		t := ps.peek()
		if t.k == tEOF {
			break
		}
		if t.k == tOp && depth == 0 && (t.s == "," || t.s == "::") {
			break
		}
		if t.k == tOp && (t.s == "[" || t.s == "(") {
			depth++
		}
		if t.k == tOp && (t.s == "]" || t.s == ")") {
			depth--
		}
		sb.WriteString(t.s)
		ps.p++
	}
	return sb.String()
}

func (ps *parser) parsePrimary() (*Expr, error) {
	t := ps.next()
	switch t.k {
	case tInt:
		return &Expr{Op: "int", Name: t.s}, nil
	case tStr:
		return &Expr{Op: "str", Name: t.s}, nil
	case tIdent:
		switch t.s {
		case "true", "false":
			return &Expr{Op: "bool", Name: t.s}, nil
		case "nil":
			return &Expr{Op: "nil", Name: "nil"}, nil
		case "forall", "exists":
			q := &Expr{Op: t.s}
			for {
				n := ps.next()
				if n.k != tIdent {
					return nil, fmt.Errorf("expected bound variable at %d in %q", n.pos, ps.src)
				}
				s := ps.parseSortText()
				q.Vars = append(q.Vars, BoundVar{n.s, s})
				if ps.accept(",") {
					continue
				}
				break
			}
			if err := ps.expect("::"); err != nil {
				return nil, err
			}
			for ps.isOp("{") {
				ps.next()
				var group []*Expr
				for {
					tr, err := ps.parseIff()
					if err != nil {
						return nil, err
					}
					q.Trig = append(q.Trig, tr)
					group = append(group, tr)
					if !ps.accept(",") {
						break
					}
				}
				q.Trigs = append(q.Trigs, group)
				if err := ps.expect("}"); err != nil {
					return nil, err
				}
			}
			body, err := ps.parseIff()
			if err != nil {
				return nil, err
			}
			q.Args = []*Expr{body}
			return q, nil
		}
		if ps.isOp("(") {
			ps.next()
			var args []*Expr
			if !ps.isOp(")") {
				for {
					a, err := ps.parseIff()
					if err != nil {
						return nil, err
					}
					args = append(args, a)
					if !ps.accept(",") {
						break
					}
				}
			}
			if err := ps.expect(")"); err != nil {
				return nil, err
			}
			if t.s == "old" {
				if len(args) != 1 {
					return nil, fmt.Errorf("old takes one argument in %q", ps.src)
				}
				return &Expr{Op: "old", Args: args}, nil
			}
			return &Expr{Op: "call", Name: t.s, Args: args}, nil
		}
		return &Expr{Op: "ident", Name: t.s}, nil
	case tOp:
		if t.s == "(" {
			e, err := ps.parseIff()
			if err != nil {
				return nil, err
			}
			if err := ps.expect(")"); err != nil {
				return nil, err
			}
			return e, nil
		}
	}
	return nil, fmt.Errorf("unexpected token %q at %d in %q", t.s, t.pos, ps.src)
}

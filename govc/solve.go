package govc

import (
	"bytes"
	"context"
	"fmt"
	"os"
	"os/exec"
	"path/filepath"
	"strings"
	"sync"
	"time"
)

// Result of discharging one obligation.
type Result struct {
	Obl     *Obligation
	Status  string // unsat (discharged), sat, unknown, timeout, error
	Solver  string
	Seconds float64
	Model   string
	Output  string
	Tried   []string
	Size    int
}

type SolverCfg struct {
	Name string
	Args func(file string, timeoutS int) []string
}

var Solvers = []SolverCfg{
	{"z3-new", func(f string, t int) []string { return []string{"z3-new", fmt.Sprintf("-T:%d", t), f} }},
	{"cvc5", func(f string, t int) []string {
		return []string{"cvc5", fmt.Sprintf("--tlimit=%d", t*1000), "--produce-models", f}
	}},
	{"z3", func(f string, t int) []string { return []string{"z3", fmt.Sprintf("-T:%d", t), f} }},
}

// Query renders the SMT-LIB text of one obligation.
func (vc *FuncVC) Query(o *Obligation, model bool) string {
	var sb strings.Builder
	sb.WriteString(vc.Prelude)
	for _, a := range vc.Asserts {
		sb.WriteString("(assert ")
		sb.WriteString(a)
		sb.WriteString(")\n")
	}
	tail := fmt.Sprintf("; obligation %s\n(assert %s)\n(assert (not %s))\n", o.Name, o.Guard, o.Goal)
	sb.WriteString(injectivityAxioms(sb.String()+tail, vc.IfaceSorts))
	sb.WriteString(tail)
	sb.WriteString("(check-sat)\n")
	if model {
		sb.WriteString("(get-model)\n")
	}
	return sb.String()
}

func runSolver(cfg SolverCfg, file string, timeoutS int) (status, out string, secs float64) {
	args := cfg.Args(file, timeoutS)
	ctx, cancel := context.WithTimeout(context.Background(), time.Duration(timeoutS+5)*time.Second)
	defer cancel()
	cmd := exec.CommandContext(ctx, args[0], args[1:]...)
	var buf bytes.Buffer
	cmd.Stdout = &buf
	cmd.Stderr = &buf
	t0 := time.Now()
	_ = cmd.Run()
	secs = time.Since(t0).Seconds()
	out = buf.String()
	first := strings.TrimSpace(strings.SplitN(out, "\n", 2)[0])
	switch first {
	case "unsat", "sat", "unknown", "timeout":
		return first, out, secs
	}
	if ctx.Err() != nil || strings.Contains(out, "timeout") || strings.Contains(out, "interrupted") {
		return "timeout", out, secs
	}
	return "error", out, secs
}

// Discharge runs the solver portfolio on every obligation (in parallel).
func Discharge(vc *FuncVC, obls []*Obligation, dir string, timeoutS int, workers int, allSolvers bool) []*Result {
	res := make([]*Result, len(obls))
	var wg sync.WaitGroup
	sem := make(chan struct{}, workers)
	for i, o := range obls {
		wg.Add(1)
		go func(i int, o *Obligation) {
			defer wg.Done()
			sem <- struct{}{}
			defer func() { <-sem }()
			res[i] = dischargeOne(vc, o, dir, i, timeoutS, allSolvers)
		}(i, o)
	}
	wg.Wait()
	return res
}

func sanitize(s string) string {
	var sb strings.Builder
	for _, r := range s {
		if r >= 'a' && r <= 'z' || r >= 'A' && r <= 'Z' || r >= '0' && r <= '9' || r == '.' || r == '_' || r == '-' {
			sb.WriteRune(r)
		} else {
			sb.WriteByte('_')
		}
	}
	return sb.String()
}

func dischargeOne(vc *FuncVC, o *Obligation, dir string, idx int, timeoutS int, allSolvers bool) *Result {
	q := vc.Query(o, true)
	file := filepath.Join(dir, fmt.Sprintf("%s.smt2", sanitize(o.Name)))
	_ = os.WriteFile(file, []byte(q), 0o644)
	r := &Result{Obl: o, Size: len(q)}
	var total float64
	for si, s := range Solvers {
		if o.Planted {
			// vacuity probe: only a quick look; anything but unsat is fine
			if si > 0 {
				break
			}
			if timeoutS > 3 {
				timeoutS = 3
			}
		}
		st, out, secs := runSolver(s, file, timeoutS)
		total += secs
		r.Tried = append(r.Tried, fmt.Sprintf("%s:%s:%.2fs", s.Name, st, secs))
		if st == "unsat" || st == "sat" {
			r.Status, r.Solver, r.Output = st, s.Name, out
			if st == "sat" {
				r.Model = out
			}
			if !allSolvers || st == "sat" {
				break
			}
			continue
		}
		if r.Status == "" || r.Status == "error" {
			r.Status, r.Solver, r.Output = st, s.Name, out
		}
	}
	r.Seconds = total
	if r.Status != "unsat" && r.Status != "sat" && !o.Planted && o.Goal != "false" {
		// refutation check: if guard together with the goal is unsatisfiable, the obligation is false on every
		// execution that reaches it (definite failure, even without a model)
		var sb strings.Builder
		sb.WriteString(vc.Prelude)
		for _, a := range vc.Asserts {
			sb.WriteString("(assert ")
			sb.WriteString(a)
			sb.WriteString(")\n")
		}
		tail := fmt.Sprintf("; refutation check for %s\n(assert %s)\n(assert %s)\n", o.Name, o.Guard, o.Goal)
		sb.WriteString(injectivityAxioms(sb.String()+tail, vc.IfaceSorts))
		sb.WriteString(tail)
		sb.WriteString("(check-sat)\n")
		f2 := filepath.Join(dir, fmt.Sprintf("%s.refute.smt2", sanitize(o.Name)))
		_ = os.WriteFile(f2, []byte(sb.String()), 0o644)
		st, _, secs := runSolver(Solvers[0], f2, 3)
		r.Seconds += secs
		if st == "unsat" {
			r.Tried = append(r.Tried, "refutation-check:goal-contradicts-path")
			r.Status = "refuted"
		}
	}
	return r
}

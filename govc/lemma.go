package govc

import (
	"fmt"
	"go/types"
	"strings"
)

// TranslateLemma builds the proof obligation of a lemma: under its requires, with the induction
// hypothesis at (induct variable - 1) when `induct` is given, its ensures hold.
func (e *Engine) TranslateLemma(l *LemmaDecl) (vc *FuncVC) {
	key := "lemma." + l.Name
	vc = &FuncVC{Key: key}
	var home *types.Package
	if h := e.homeOf(l.Where); h != nil {
		home = h
	}
	tr := &fnTrans{eng: e, key: key, spec: &FuncSpec{Kind: "lemma", Key: key, Loops: map[int]*LoopSpec{}, Flags: map[string]string{}, Props: l.Props}}
	tr.c = newSmtCtx(e, home)
	tr.compSort = map[string]Sort{}
	tr.counters = map[string]int{}
	tr.props = l.Props
	tr.guard = "true"
	defer func() {
		if r := recover(); r != nil {
			if ee, ok := r.(evalErr); ok {
				vc.Err = fmt.Errorf("%s: %s", key, ee.msg)
				return
			}
			panic(r)
		}
	}()
	env := map[string]Term{}
	for _, p := range l.Params {
		s, gt, err := tr.c.specSort(p.Sort)
		if err != nil {
			panic(evalErr{fmt.Sprintf("%s: %v", l.Where, err)})
		}
		env[p.Name] = Term{tr.c.declConst("lp:"+p.Name, s), s, gt}
	}
	evalAll := func(cs []Clause, env map[string]Term) string {
		ev := &evalCtx{tr: tr, env: env}
		var parts []string
		for _, c := range cs {
			s, err := ev.EvalBool(c.E)
			if err != nil {
				panic(evalErr{fmt.Sprintf("%s: %v", c.Where, err)})
			}
			parts = append(parts, s)
		}
		return and(parts...)
	}
	req := evalAll(l.Requires, env)
	ens := evalAll(l.Ensures, env)
	tr.asserts = append(tr.asserts, req)
	tr.currentLemma = l.Name
	if l.Induct != "" {
		iv, ok := env[l.Induct]
		if !ok || iv.Sort != "Int" {
			panic(evalErr{fmt.Sprintf("%s: induct variable %q is not an int parameter", l.Where, l.Induct)})
		}
		env2 := map[string]Term{}
		for k, v := range env {
			env2[k] = v
		}
		env2[l.Induct] = Term{"(- " + iv.S + " 1)", "Int", nil}
		// the induction hypothesis holds for ALL values of the other parameters at the predecessor
		var binders []string
		for _, p := range l.Params {
			if p.Name == l.Induct {
				continue
			}
			s, gt, _ := tr.c.specSort(p.Sort)
			tr.c.fresh++
			vn := q(fmt.Sprintf("bv:%s!%d", p.Name, tr.c.fresh))
			env2[p.Name] = Term{vn, s, gt}
			binders = append(binders, fmt.Sprintf("(%s %s)", vn, s))
		}
		hyp := imp(evalAll(l.Requires, env2), evalAll(l.Ensures, env2))
		if len(binders) > 0 {
			hyp = fmt.Sprintf("(forall (%s) %s)", strings.Join(binders, " "), hyp)
			// and its ground instance at the lemma's own parameters (needs no trigger)
			env3 := map[string]Term{}
			for k, v := range env {
				env3[k] = v
			}
			env3[l.Induct] = env2[l.Induct]
			tr.asserts = append(tr.asserts, imp(evalAll(l.Requires, env3), evalAll(l.Ensures, env3)))
		}
		tr.asserts = append(tr.asserts, hyp)
		tr.obligeG("true", "lemma", "wellfounded", imp(req, app("<=", "0", iv.S)), 0, nil, "induction variable is bounded below")
	}
	// hints: instances of lemmas declared earlier in the contract files
	for _, h := range l.Hints {
		var target *LemmaDecl
		for _, o := range e.Specs.Lemmas {
			if o == l {
				break
			}
			if o.Name == h.Name {
				target = o
			}
		}
		if target == nil {
			panic(evalErr{fmt.Sprintf("%s: hint %s does not name an earlier lemma", l.Where, h.Name)})
		}
		if len(h.Args) != len(target.Params) {
			panic(evalErr{fmt.Sprintf("%s: hint %s has %d arguments, want %d", l.Where, h.Name, len(h.Args), len(target.Params))})
		}
		ev := &evalCtx{tr: tr, env: env}
		henv := map[string]Term{}
		for i, a := range h.Args {
			t, err := ev.Eval(a)
			if err != nil {
				panic(evalErr{fmt.Sprintf("%s: hint argument: %v", l.Where, err)})
			}
			henv[target.Params[i].Name] = t
		}
		tr.asserts = append(tr.asserts, imp(evalAll(target.Requires, henv), evalAll(target.Ensures, henv)))
		tr.c.trusted["lemma-proved-separately:"+target.Name] = true
	}
	tr.obligeG("true", "lemma", "holds", ens, 0, nil, strings.TrimSpace(l.Name))
	for _, o := range tr.obls {
		o.Pos = l.Where
	}
	sd := tr.specDecls()
	vc.Prelude = tr.c.prelude() + sd
	vc.Asserts = tr.asserts
	vc.Obls = tr.obls
	for n := range tr.c.trusted {
		vc.Trusted = append(vc.Trusted, n)
	}
	for s := range tr.c.ifaceCtor {
		vc.IfaceSorts = append(vc.IfaceSorts, s)
	}
	return vc
}

// lemmaFacts renders the proved lemmas that mention functions used by the current VC, as quantified facts.
func (tr *fnTrans) lemmaFacts() []string {
	var out []string
	c := tr.c
	pure := &fnTrans{eng: tr.eng, c: c, compSort: map[string]Sort{}}
	for _, l := range tr.eng.Specs.Lemmas {
		if l.Name == tr.currentLemma {
			break // a lemma may only use lemmas declared before it (no circular reasoning)
		}
		mentions := false
		for _, cl := range append(append([]Clause{}, l.Requires...), l.Ensures...) {
			if exprMentions(cl.E, c.usedFuns) {
				mentions = true
			}
		}
		if !mentions {
			continue
		}
		saved := c.home
		if h := tr.eng.homeOf(l.Where); h != nil {
			c.home = h
		}
		env := map[string]Term{}
		var binders []string
		okAll := true
		for _, p := range l.Params {
			s, gt, err := c.specSort(p.Sort)
			if err != nil {
				okAll = false
				break
			}
			vn := q("bv:" + p.Name)
			env[p.Name] = Term{vn, s, gt}
			binders = append(binders, fmt.Sprintf("(%s %s)", vn, s))
		}
		if okAll {
			ev := &evalCtx{tr: pure, env: env}
			var req, ens []string
			for _, cl := range l.Requires {
				if s, err := ev.EvalBool(cl.E); err == nil {
					req = append(req, s)
				} else {
					okAll = false
				}
			}
			for _, cl := range l.Ensures {
				if s, err := ev.EvalBool(cl.E); err == nil {
					ens = append(ens, s)
				} else {
					okAll = false
				}
			}
			if okAll {
				body := imp(and(req...), and(ens...))
				if len(l.Triggers) > 0 {
					var pats []string
					for _, g := range l.Triggers {
						var ts []string
						for _, te := range g {
							if t, err := ev.Eval(te); err == nil {
								ts = append(ts, t.S)
							}
						}
						pats = append(pats, ":pattern ("+strings.Join(ts, " ")+")")
					}
					body = fmt.Sprintf("(! %s %s)", body, strings.Join(pats, " "))
				}
				out = append(out, fmt.Sprintf("(forall (%s) %s)", strings.Join(binders, " "), body))
				c.trusted["lemma-proved-separately:"+l.Name] = true
			}
		}
		c.home = saved
	}
	return out
}

#!/bin/bash
# usage: seedtest.sh <PROP> <seed-dir> <scratch-worktree> <demo-target-dir-relative> [extra props to check...]
# Confirms a seeded change (compiles, suite passes, demo fails with / passes without), then runs the checks on /repo with it.
export GOFLAGS=-mod=mod GOPROXY=off GOSUMDB=off GOTOOLCHAIN=local
prop=$1; sd=$2; wt=$3; demodir=$4; shift 4
set -u
cd $wt && git checkout -q -- . && git clean -fdq
git apply $sd/patch.diff || { echo "PATCH DOES NOT APPLY"; exit 3; }
go build ./... || { echo "BUILD FAILS"; exit 3; }
if go test -vet=off -count=1 ./... >/tmp/seed_suite.log 2>&1; then echo "suite: pass (with change)"; else echo "suite: FAILS with change"; grep -v "^ok" /tmp/seed_suite.log | head; fi
cp $sd/demo_test.go $wt/$demodir/zz_demo_test.go
if go test -vet=off -count=1 -timeout 120s -run 'Demo|ZZ' ./$demodir >/tmp/seed_demo1.log 2>&1; then echo "demo with change: PASSES (unexpected)"; else echo "demo with change: fails (expected)"; fi
git checkout -q -- . ; 
if go test -vet=off -count=1 -timeout 120s -run 'Demo|ZZ' ./$demodir >/tmp/seed_demo2.log 2>&1; then echo "demo without change: passes (expected)"; else echo "demo without change: FAILS (unexpected)"; tail -5 /tmp/seed_demo2.log; fi
git clean -fdq
cd /repo
if [ -n "$(git status --porcelain)" ]; then echo "REFUSING: /repo has uncommitted changes (commit hook edits first)"; exit 4; fi
git apply $sd/patch.diff || { echo "PATCH DOES NOT APPLY TO /repo"; exit 3; }
for p in $prop "$@"; do (cd /verif && /verif/bin/govc check $p quick | grep -E "VIOLATION|^$p|ERROR" | cut -c1-230); done
git -C /repo checkout -- .

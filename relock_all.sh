#!/bin/bash
# Re-records obligations.lock.json from the current (reference) tree. Run only on the unchanged tree after contract edits.
for p in $(python3 -c "import json;print(' '.join(c['property_id'] for c in json.load(open('/verif/MANIFEST.json'))['checks']))"); do
  /verif/bin/govc -relock check $p quick | tail -1
done

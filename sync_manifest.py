#!/usr/bin/env python3
# Keeps the mechanical parts of MANIFEST.json current: the list of guarded hook commits in /repo and the
# properties the engine serves.  Run by hand after committing hooks; not a registered command.
import json,subprocess
p='/verif/MANIFEST.json'
m=json.load(open(p))
out=subprocess.run(['git','-C','/repo','log','--reverse','--format=%H %s'],capture_output=True,text=True).stdout.strip().split('\n')
m['hooks']['source_commits']=[l.split()[0] for l in out if ' verif hook' in l]
m['engines'][0]['serves_properties']=[c['property_id'] for c in m['checks']]
json.dump(m,open(p,'w'),indent=1)
print(len(m['hooks']['source_commits']),'hook commits;',len(m['checks']),'checks')

#!/bin/bash
# usage: seed_intake.sh <PROP> <suffix-start> [extra props...]   e.g. seed_intake.sh C18 2 C01
# Takes /tmp/seed_<PROP>/out/{1,2,3}, files them as /verif/seeded/<PROP>-<n>, confirms and runs the checks.
prop=$1; start=$2; shift 2
n=$start
for i in 1 2 3; do
  src=/tmp/seed_$prop/out/$i
  [ -d $src ] || continue
  d=/verif/seeded/$prop-$n; mkdir -p $d
  cp $src/patch.diff $src/notes.txt $d/
  sed 's/^func TestSeed/func TestDemoSeed/' $src/demo_test.go > $d/demo_test.go
  dd=$(head -1 $d/demo_test.go | sed -n 's/.*place in: *\([^ ]*\).*/\1/p'); dd=${dd%/}; [ -z "$dd" ] && dd=.
  echo "$dd" > $d/.demodir
  echo "=== $prop-$n (demo dir $dd)"
  /verif/seedtest.sh $prop $d /tmp/fixwt $dd "$@" 2>&1 | grep -v conda | cut -c1-260
  n=$((n+1))
done

#!/bin/bash
# Runs every claimed check (quick by default) against /repo's working tree; prints a summary.
tier=${1:-quick}
rc=0
for p in $(python3 -c "import json;print(' '.join(c['property_id'] for c in json.load(open('/verif/MANIFEST.json'))['checks']))"); do
  /verif/bin/govc check $p $tier || rc=1
done
exit $rc

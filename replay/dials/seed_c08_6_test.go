// place in: ./
package dials

import (
	"context"
	"errors"
	"reflect"
	"testing"
	"time"
)

type seedC082Config_r7c08_6 struct {
	Foo string
}

type seedC082Ptrified_r7c08_6 struct {
	Foo *string
}

type seedC082Watcher_r7c08_6 struct {
	args WatchArgs
}

func (s *seedC082Watcher_r7c08_6) Value(_ context.Context, t *Type) (reflect.Value, error) {
	return reflect.ValueOf(seedC082Ptrified_r7c08_6{}).Convert(t.Type()), nil
}

func (s *seedC082Watcher_r7c08_6) Watch(_ context.Context, _ *Type, args WatchArgs) error {
	s.args = args
	return nil
}

// seedC082CallbackChanClosed reports whether the monitor goroutine has exited
// (it closes the callback channel on its way out).
func seedC082CallbackChanClosed_r7c08_6(d *Dials[seedC082Config_r7c08_6]) (closed bool) {
	defer func() {
		if r := recover(); r != nil {
			closed = true
		}
	}()
	select {
	case d.cbch <- &watchErrorEvent[seedC082Config_r7c08_6]{err: errors.New("seedC082 probe")}:
	default:
	}
	return false
}

func seedC082WaitMonitorGone_r7c08_6(t *testing.T, d *Dials[seedC082Config_r7c08_6]) {
	t.Helper()
	deadline := time.Now().Add(5 * time.Second)
	for time.Now().Before(deadline) {
		if seedC082CallbackChanClosed_r7c08_6(d) {
			return
		}
		time.Sleep(5 * time.Millisecond)
	}
	t.Fatalf("monitor goroutine did not exit within 5s")
}

// seedC082EnableAfterShutdown calls EnableVerification with a context that
// expires after 200ms and requires the call to return (with an error) shortly
// after that.
func seedC082EnableAfterShutdown_r7c08_6(t *testing.T, d *Dials[seedC082Config_r7c08_6]) {
	t.Helper()
	type res struct {
		cfg *seedC082Config_r7c08_6
		err error
	}
	resCh := make(chan res, 1)
	callCtx, callCancel := context.WithTimeout(context.Background(), 200*time.Millisecond)
	defer callCancel()
	go func() {
		c, _, err := d.EnableVerification(callCtx)
		resCh <- res{cfg: c, err: err}
	}()
	select {
	case r := <-resCh:
		if r.err == nil {
			t.Errorf("EnableVerification after shutdown reported success (cfg %+v); expected a failure indication", r.cfg)
		}
	case <-time.After(5 * time.Second):
		t.Fatalf("EnableVerification still blocked 4.8s after its context expired (the library had already shut down)")
	}
}

func TestDemoSeedC082EnableVerificationAfterAllSourcesDone_r7c08_6(t *testing.T) {
	ctx, cancel := context.WithCancel(context.Background())
	defer cancel()
	w := seedC082Watcher_r7c08_6{}
	base := seedC082Config_r7c08_6{Foo: "foo"}
	d, err := Params[seedC082Config_r7c08_6]{DelayInitialVerification: true}.Config(ctx, &base, &w)
	if err != nil {
		t.Fatalf("Config failed: %s", err)
	}
	dctx, dcancel := context.WithTimeout(ctx, 5*time.Second)
	defer dcancel()
	w.args.Done(dctx)
	if dctx.Err() != nil {
		t.Fatalf("Done not accepted within 5s")
	}
	seedC082WaitMonitorGone_r7c08_6(t, d)
	seedC082EnableAfterShutdown_r7c08_6(t, d)
}

func TestDemoSeedC082EnableVerificationAfterConfigContextCancelled_r7c08_6(t *testing.T) {
	ctx, cancel := context.WithCancel(context.Background())
	defer cancel()
	w := seedC082Watcher_r7c08_6{}
	base := seedC082Config_r7c08_6{Foo: "foo"}
	d, err := Params[seedC082Config_r7c08_6]{DelayInitialVerification: true}.Config(ctx, &base, &w)
	if err != nil {
		t.Fatalf("Config failed: %s", err)
	}
	// sanity: while the library is alive, enabling verification works.
	if _, _, evErr := d.EnableVerification(ctx); evErr != nil {
		t.Fatalf("EnableVerification on a live Dials failed: %s", evErr)
	}
	cancel()
	seedC082WaitMonitorGone_r7c08_6(t, d)
	seedC082EnableAfterShutdown_r7c08_6(t, d)
}

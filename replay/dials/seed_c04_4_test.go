// place in: ./ (worktree root, package dials)
package dials

import (
	"context"
	"errors"
	"reflect"
	"testing"
	"time"
)

// seedDemo2Cfg declares Verify on the pointer receiver (like ez's
// validatingConfig in the library's own tests).
type seedDemo2Cfg struct {
	Port int
}

var errSeedDemo2 = errors.New("port out of range")

func (c *seedDemo2Cfg) Verify() error {
	if c.Port <= 0 || c.Port > 65535 {
		return errSeedDemo2
	}
	return nil
}

var _ VerifiedConfig = (*seedDemo2Cfg)(nil)

type seedDemo2Src struct {
	port int
}

func (s *seedDemo2Src) Value(_ context.Context, t *Type) (reflect.Value, error) {
	v := reflect.New(t.Type()).Elem()
	f := v.FieldByName("Port")
	f.Set(reflect.New(f.Type().Elem()))
	f.Elem().SetInt(int64(s.port))
	return v, nil
}

type seedDemo2WatchSrc struct {
	seedDemo2Src
	args WatchArgs
}

func (s *seedDemo2WatchSrc) Watch(_ context.Context, _ *Type, args WatchArgs) error {
	s.args = args
	return nil
}

func TestDemoSeedInitialVerifyPtrReceiverNoWatcher(t *testing.T) {
	ctx, cancel := context.WithTimeout(context.Background(), 5*time.Second)
	defer cancel()

	base := seedDemo2Cfg{Port: 8080}
	d, err := Config(ctx, &base, &seedDemo2Src{port: 70000})
	if !errors.Is(err, errSeedDemo2) {
		t.Errorf("Config must fail with the Verify error for an initial stack that does not verify; got err=%v", err)
	}
	if d != nil {
		if vErr := d.View().Verify(); vErr != nil {
			t.Errorf("config visible through View() does not verify: %+v: %s", *d.View(), vErr)
		}
	}
}

func TestDemoSeedInitialVerifyPtrReceiverWithWatcher(t *testing.T) {
	ctx, cancel := context.WithTimeout(context.Background(), 5*time.Second)
	defer cancel()

	base := seedDemo2Cfg{Port: 8080}
	w := &seedDemo2WatchSrc{seedDemo2Src: seedDemo2Src{port: 70000}}
	// all four combinations of the two flags; only (false, false) verifies in Config.
	for _, skip := range []bool{false, true} {
		for _, delay := range []bool{false, true} {
			d, err := Params[seedDemo2Cfg]{
				SkipInitialVerification:  skip,
				DelayInitialVerification: delay,
			}.Config(ctx, &base, w)
			if skip || delay {
				if err != nil {
					t.Errorf("skip=%t delay=%t: unexpected error %s", skip, delay, err)
				}
				continue
			}
			if !errors.Is(err, errSeedDemo2) {
				t.Errorf("skip=%t delay=%t: Config must fail with the Verify error; got err=%v", skip, delay, err)
			}
			if d != nil {
				if vErr := d.View().Verify(); vErr != nil {
					t.Errorf("skip=%t delay=%t: config visible through View() does not verify: %+v: %s",
						skip, delay, *d.View(), vErr)
				}
			}
		}
	}
}

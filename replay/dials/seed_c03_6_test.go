// place in: ./ (worktree root, package dials)
package dials

import (
	"context"
	"reflect"
	"testing"
)

type demoSeedC033Node_r5c03_6 struct {
	Name string
	Kids []*demoSeedC033Node_r5c03_6
}

type demoSeedC033Cfg_r5c03_6 struct {
	Limit *int
	Burst *int
	Quota *int
	Nodes []*demoSeedC033Node_r5c03_6
}

// demoSeedC033Source fills the (pointerified) value it is asked for through
// the passed callback.
type demoSeedC033Source_r5c03_6 struct {
	fill func(v reflect.Value)
}

func (s *demoSeedC033Source_r5c03_6) Value(_ context.Context, typ *Type) (reflect.Value, error) {
	v := reflect.New(typ.Type()).Elem()
	s.fill(v)
	return v, nil
}

// defaults: Limit and Burst share one int, Quota has its own.
func demoSeedC033Defaults_r5c03_6() *demoSeedC033Cfg_r5c03_6 {
	shared := 10
	quota := 7
	n := &demoSeedC033Node_r5c03_6{Name: "n"}
	n.Kids = []*demoSeedC033Node_r5c03_6{n}
	return &demoSeedC033Cfg_r5c03_6{Limit: &shared, Burst: &shared, Quota: &quota, Nodes: []*demoSeedC033Node_r5c03_6{n, n}}
}

// A source sets only Limit; Burst shared its pointee with Limit in the
// defaults, and must keep the default value.
func TestDemoSeedC033SharedDefaultPointerOverlaidOnce_r5c03_6(t *testing.T) {
	in := demoSeedC033Defaults_r5c03_6()
	src := &demoSeedC033Source_r5c03_6{fill: func(v reflect.Value) {
		fifty := 50
		v.FieldByName("Limit").Set(reflect.ValueOf(&fifty))
	}}
	d, err := Config(context.Background(), in, src)
	if err != nil {
		t.Fatalf("Config failed: %s", err)
	}
	out := d.View()
	fifty, ten, seven := 50, 10, 7
	n := &demoSeedC033Node_r5c03_6{Name: "n"}
	n.Kids = []*demoSeedC033Node_r5c03_6{n}
	want := &demoSeedC033Cfg_r5c03_6{Limit: &fifty, Burst: &ten, Quota: &seven, Nodes: []*demoSeedC033Node_r5c03_6{n, n}}
	if !reflect.DeepEqual(out, want) {
		t.Errorf("unexpected config: Limit %d; Burst %d; Quota %d; want Limit 50; Burst 10; Quota 7",
			*out.Limit, *out.Burst, *out.Quota)
	}
	if *in.Limit != 10 || *in.Burst != 10 {
		t.Errorf("caller's defaults were modified: Limit %d; Burst %d", *in.Limit, *in.Burst)
	}
	if out.Nodes[0] != out.Nodes[1] || out.Nodes[0].Kids[0] != out.Nodes[0] || out.Nodes[0] == in.Nodes[0] {
		t.Errorf("node cycle not copied faithfully")
	}
}

// A source sets Burst and Quota to one shared pointer: they must be one
// (fresh) pointer in the result.
func TestDemoSeedC033SharedSourcePointer_r5c03_6(t *testing.T) {
	in := demoSeedC033Defaults_r5c03_6()
	srcShared := 99
	src := &demoSeedC033Source_r5c03_6{fill: func(v reflect.Value) {
		v.FieldByName("Burst").Set(reflect.ValueOf(&srcShared))
		v.FieldByName("Quota").Set(reflect.ValueOf(&srcShared))
	}}
	d, err := Config(context.Background(), in, src)
	if err != nil {
		t.Fatalf("Config failed: %s", err)
	}
	out := d.View()
	if *out.Limit != 10 || *out.Burst != 99 || *out.Quota != 99 {
		t.Errorf("unexpected config: Limit %d; Burst %d; Quota %d; want Limit 10; Burst 99; Quota 99",
			*out.Limit, *out.Burst, *out.Quota)
	}
	if out.Burst != out.Quota {
		t.Errorf("pointer shared by two fields of the source value was split: Burst %p; Quota %p", out.Burst, out.Quota)
	}
	if out.Burst == &srcShared {
		t.Errorf("Burst still points at the source's int (not fresh)")
	}
}

// place in: ./ (worktree root, package dials)
package dials

import (
	"context"
	"errors"
	"reflect"
	"testing"
	"time"
)

type seedDemo3Cfg struct {
	Name string
	Max  int
}

var errSeedDemo3 = errors.New("max too large")

func (c seedDemo3Cfg) Verify() error {
	if c.Max > 100 {
		// a sentinel error: every rejected config fails with the same value
		return errSeedDemo3
	}
	return nil
}

type seedDemo3Src struct {
	typ  *Type
	args WatchArgs
}

func (s *seedDemo3Src) Value(_ context.Context, t *Type) (reflect.Value, error) {
	return reflect.New(t.Type()).Elem(), nil
}

func (s *seedDemo3Src) Watch(_ context.Context, t *Type, args WatchArgs) error {
	s.typ = t
	s.args = args
	return nil
}

func (s *seedDemo3Src) val(name string, max int) reflect.Value {
	v := reflect.New(s.typ.Type()).Elem()
	n := v.FieldByName("Name")
	n.Set(reflect.New(n.Type().Elem()))
	n.Elem().SetString(name)
	m := v.FieldByName("Max")
	m.Set(reflect.New(m.Type().Elem()))
	m.Elem().SetInt(int64(max))
	return v
}

func TestDemoSeedEveryRejectedUpdateReachesOnWatchedError(t *testing.T) {
	ctx, cancel := context.WithTimeout(context.Background(), 5*time.Second)
	defer cancel()

	type werr struct {
		err      error
		old, new seedDemo3Cfg
	}
	werrs := make(chan werr, 16)

	// two independent watching sources
	srcA, srcB := &seedDemo3Src{}, &seedDemo3Src{}
	base := seedDemo3Cfg{Name: "base", Max: 1}
	d, err := Params[seedDemo3Cfg]{
		OnWatchedError: func(_ context.Context, err error, o, n *seedDemo3Cfg) {
			w := werr{err: err}
			if o != nil {
				w.old = *o
			}
			if n != nil {
				w.new = *n
			}
			werrs <- w
		},
	}.Config(ctx, &base, srcA, srcB)
	if err != nil {
		t.Fatalf("config failed: %s", err)
	}

	expectRejected := func(step string, rejected seedDemo3Cfg, current seedDemo3Cfg) {
		t.Helper()
		select {
		case w := <-werrs:
			if !errors.Is(w.err, errSeedDemo3) {
				t.Errorf("%s: unexpected error in OnWatchedError: %v", step, w.err)
			}
			if w.new != rejected {
				t.Errorf("%s: OnWatchedError got rejected config %+v; expected %+v", step, w.new, rejected)
			}
			if w.old != current {
				t.Errorf("%s: OnWatchedError got current config %+v; expected %+v", step, w.old, current)
			}
		case <-time.After(2 * time.Second):
			t.Errorf("%s: OnWatchedError was never called for rejected config %+v (queue cannot have overflowed)", step, rejected)
		}
	}

	// valid
	if err := srcA.args.BlockingReportNewValue(ctx, srcA.val("a1", 10)); err != nil {
		t.Fatalf("valid update rejected: %s", err)
	}
	cur := seedDemo3Cfg{Name: "a1", Max: 10}
	if *d.View() != cur {
		t.Fatalf("unexpected view %+v", *d.View())
	}
	_, ser := d.ViewVersion()

	// invalid from A
	if err := srcA.args.BlockingReportNewValue(ctx, srcA.val("a2", 500)); !errors.Is(err, errSeedDemo3) {
		t.Fatalf("expected rejection; got %v", err)
	}
	expectRejected("first invalid (source A)", seedDemo3Cfg{Name: "a2", Max: 500}, cur)

	// a different invalid one from B, right after (no valid update in between)
	if err := srcB.args.BlockingReportNewValue(ctx, srcB.val("b1", 900)); !errors.Is(err, errSeedDemo3) {
		t.Fatalf("expected rejection; got %v", err)
	}
	expectRejected("second invalid (source B)", seedDemo3Cfg{Name: "b1", Max: 900}, cur)

	if v, s := d.ViewVersion(); *v != cur || s != ser {
		t.Errorf("view/version changed by rejected updates: %+v", *v)
	}

	// valid again (both sources back to sane values), then invalid once more
	if err := srcB.args.BlockingReportNewValue(ctx, srcB.val("b2", 20)); err != nil {
		t.Fatalf("valid update rejected: %s", err)
	}
	cur = seedDemo3Cfg{Name: "b2", Max: 20}
	if err := srcB.args.BlockingReportNewValue(ctx, srcB.val("b3", 300)); !errors.Is(err, errSeedDemo3) {
		t.Fatalf("expected rejection; got %v", err)
	}
	expectRejected("invalid after valid (source B)", seedDemo3Cfg{Name: "b3", Max: 300}, cur)

	select {
	case w := <-werrs:
		t.Errorf("unexpected extra OnWatchedError call: %+v", w)
	default:
	}
}

// place in: . (the module root, package dials_test)
package dials_test

import (
	"context"
	"reflect"
	"testing"

	"github.com/vimeo/dials"
)

// demoSeedC011Src is a source that sets the named top-level fields of the
// (pointerified) type it is handed, and leaves every other field unset.
type demoSeedC011Src_r5c01_4 struct {
	vals map[string]interface{}
}

func (s *demoSeedC011Src_r5c01_4) Value(_ context.Context, t *dials.Type) (reflect.Value, error) {
	out := reflect.New(t.Type()).Elem()
	for name, v := range s.vals {
		out.FieldByName(name).Set(reflect.ValueOf(v))
	}
	return out, nil
}

type demoSeedC011Cfg_r5c01_4 struct {
	// user-declared pointers: ptrify leaves these as-is.
	Primary  *int
	Fallback *int
	Name     string
}

func demoSeedC011IntPtr_r5c01_4(i int) *int { return &i }

// The default has Primary and Fallback pointing at the same int (a common
// idiom: "fallback defaults to the same limit as primary"). A single source
// sets only Primary. Fallback was not set by any source, so it must keep the
// default (10).
func TestDemoSeedC01SharedDefaultPointerOnlyOneFieldSet_r5c01_4(t *testing.T) {
	shared := 10
	def := demoSeedC011Cfg_r5c01_4{Primary: &shared, Fallback: &shared, Name: "n"}

	src := &demoSeedC011Src_r5c01_4{vals: map[string]interface{}{"Primary": demoSeedC011IntPtr_r5c01_4(42)}}
	d, err := dials.Config(context.Background(), &def, src)
	if err != nil {
		t.Fatalf("unexpected error: %s", err)
	}
	got := d.View()
	if got.Primary == nil || *got.Primary != 42 {
		t.Errorf("Primary: expected 42 (set by the only source); got %v", got.Primary)
	}
	if got.Fallback == nil {
		t.Fatalf("Fallback: expected default 10; got nil")
	}
	if *got.Fallback != 10 {
		t.Errorf("Fallback: no source set it, expected default 10; got %d", *got.Fallback)
	}
	if got.Name != "n" {
		t.Errorf("Name: expected default %q; got %q", "n", got.Name)
	}
	if shared != 10 {
		t.Errorf("caller's default was mutated: %d", shared)
	}
}

// Two layers: the second layer sets nothing; the first sets only Primary.
func TestDemoSeedC01SharedDefaultPointerTwoLayers_r5c01_4(t *testing.T) {
	shared := 7
	def := demoSeedC011Cfg_r5c01_4{Primary: &shared, Fallback: &shared}

	l1 := &demoSeedC011Src_r5c01_4{vals: map[string]interface{}{"Primary": demoSeedC011IntPtr_r5c01_4(1)}}
	l2 := &demoSeedC011Src_r5c01_4{vals: map[string]interface{}{}}
	d, err := dials.Config(context.Background(), &def, l1, l2)
	if err != nil {
		t.Fatalf("unexpected error: %s", err)
	}
	got := d.View()
	if got.Primary == nil || *got.Primary != 1 {
		t.Errorf("Primary: expected 1; got %v", got.Primary)
	}
	if got.Fallback == nil || *got.Fallback != 7 {
		t.Errorf("Fallback: expected default 7; got %v", *got.Fallback)
	}
}

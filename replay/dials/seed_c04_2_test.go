package dials

import (
	"context"
	"errors"
	"reflect"
	"testing"
	"time"
)

var errZZDemo2Invalid = errors.New("zzdemo2: config marked invalid")

type zzDemo2Cfg struct {
	Valid bool
	Foo   string
}

func (c *zzDemo2Cfg) Verify() error {
	if !c.Valid {
		return errZZDemo2Invalid
	}
	return nil
}

type zzDemo2Ptrified struct {
	Valid *bool
	Foo   *string
}

type zzDemo2Watcher struct {
	typ  *Type
	args WatchArgs
}

func (w *zzDemo2Watcher) Value(_ context.Context, t *Type) (reflect.Value, error) {
	return reflect.ValueOf(zzDemo2Ptrified{}).Convert(t.Type()), nil
}

func (w *zzDemo2Watcher) Watch(_ context.Context, t *Type, args WatchArgs) error {
	w.typ = t
	w.args = args
	return nil
}

// SkipInitialVerification only skips the Verify() call made by Config();
// every update from a watching source must still be verified, so an invalid
// update that follows a valid one must be rejected and never become visible.
func TestZZDemoSkipInitialVerificationStillVerifiesUpdates(t *testing.T) {
	ctx, cancel := context.WithTimeout(context.Background(), 3*time.Second)
	defer cancel()

	watchedErrs := make(chan error, 4)
	newCfgs := make(chan *zzDemo2Cfg, 4)
	w := zzDemo2Watcher{}
	// initial stack is invalid, but initial verification is skipped
	base := zzDemo2Cfg{Valid: false, Foo: "base"}
	d, err := Params[zzDemo2Cfg]{
		SkipInitialVerification: true,
		OnWatchedError:          func(_ context.Context, err error, _, _ *zzDemo2Cfg) { watchedErrs <- err },
		OnNewConfig:             func(_ context.Context, _, nc *zzDemo2Cfg) { newCfgs <- nc },
	}.Config(ctx, &base, &w)
	if err != nil {
		t.Fatalf("Config failed: %s", err)
	}

	// a valid update (Verify succeeds) is installed
	trueVal, goodFoo := true, "good"
	if repErr := w.args.ReportNewValue(ctx,
		reflect.ValueOf(zzDemo2Ptrified{Valid: &trueVal, Foo: &goodFoo}).Convert(w.typ.Type())); repErr != nil {
		t.Fatalf("report failed: %s", repErr)
	}
	select {
	case nc := <-newCfgs:
		if nc.Foo != "good" || !nc.Valid {
			t.Fatalf("unexpected new config: %+v", nc)
		}
	case wErr := <-watchedErrs:
		t.Fatalf("valid update rejected: %s", wErr)
	case <-ctx.Done():
		t.Fatalf("timed out waiting for valid update")
	}
	<-d.Events()
	curCfg, curSerial := d.ViewVersion()
	if curCfg.Foo != "good" {
		t.Fatalf("unexpected current config: %+v", curCfg)
	}

	// an invalid update after the valid one must be rejected
	falseVal, badFoo := false, "bad"
	if repErr := w.args.ReportNewValue(ctx,
		reflect.ValueOf(zzDemo2Ptrified{Valid: &falseVal, Foo: &badFoo}).Convert(w.typ.Type())); repErr != nil {
		t.Fatalf("report failed: %s", repErr)
	}
	select {
	case nc := <-newCfgs:
		t.Errorf("OnNewConfig observed a config failing Verify(): %+v (%v)", nc, nc.Verify())
	case wErr := <-watchedErrs:
		if !errors.Is(wErr, errZZDemo2Invalid) {
			t.Errorf("unexpected error passed to OnWatchedError: %s", wErr)
		}
	case <-time.After(500 * time.Millisecond):
		t.Errorf("neither OnWatchedError nor OnNewConfig called for the invalid update")
	}

	afterCfg, afterSerial := d.ViewVersion()
	if afterCfg != curCfg || afterSerial != curSerial {
		t.Errorf("rejected update changed view/version: now %+v (%+v); before %+v (%+v)",
			afterCfg, afterSerial, curCfg, curSerial)
	}
	if vErr := d.View().Verify(); vErr != nil {
		t.Errorf("View() exposes a config failing Verify(): %+v: %s", d.View(), vErr)
	}
	select {
	case ev := <-d.Events():
		t.Errorf("Events() delivered a config for a rejected update: %+v", ev)
	default:
	}
}

// DROP-IN LOCATION: package dials, at the repository root, as zz_demo_test.go
// Run with:
//   go test -vet=off -count=1 -run 'TestZZDemoC09GlobalCallbacksResumeAfterEnable' .
//
// Property C09 (precise suppression): global callbacks (OnNewConfig and
// OnWatchedError, including errors reported by sources) are withheld ONLY while
// the verification delay is in force and
// CallGlobalCallbacksAfterVerificationEnabled is set; they are delivered in
// every other state -- in particular once EnableVerification has succeeded.
//
// Scenario: delay + suppress-until-enabled, a failing EnableVerification, an
// update arriving while the delay is in force (global callbacks withheld), a
// succeeding EnableVerification retry, and then one more update and one
// source-reported error, both of which must reach the global callbacks.
// (With change1 applied only the source-reported error is lost; the
// OnNewConfig check is kept as a sanity check of the scenario.)
package dials

import (
	"context"
	"errors"
	"reflect"
	"testing"
	"time"
)

type zzC09Config struct {
	Valid bool
	Foo   string
}

var errZZC09Invalid = errors.New("zzC09: invalid config")

func (c zzC09Config) Verify() error {
	if c.Valid {
		return nil
	}
	return errZZC09Invalid
}

type zzC09Ptrified struct {
	Valid *bool
	Foo   *string
}

type zzC09Source struct {
	t    *Type
	args WatchArgs
}

func (s *zzC09Source) Value(_ context.Context, t *Type) (reflect.Value, error) {
	return reflect.ValueOf(zzC09Ptrified{}).Convert(t.Type()), nil
}

func (s *zzC09Source) Watch(_ context.Context, t *Type, args WatchArgs) error {
	s.t = t
	s.args = args
	return nil
}

func (s *zzC09Source) send(ctx context.Context, v zzC09Ptrified) error {
	return s.args.ReportNewValue(ctx, reflect.ValueOf(v).Convert(s.t.Type()))
}

func TestZZDemoC09GlobalCallbacksResumeAfterEnable(t *testing.T) {
	ctx, cancel := context.WithCancel(context.Background())
	defer cancel()

	globalNewCfg := make(chan *zzC09Config, 8)
	globalErr := make(chan error, 8)

	src := &zzC09Source{}
	base := zzC09Config{Valid: false, Foo: "base"}
	d, err := Params[zzC09Config]{
		OnNewConfig: func(_ context.Context, _, nc *zzC09Config) { globalNewCfg <- nc },
		OnWatchedError: func(_ context.Context, e error, _, _ *zzC09Config) {
			globalErr <- e
		},
		DelayInitialVerification:                    true,
		CallGlobalCallbacksAfterVerificationEnabled: true,
	}.Config(ctx, &base, src)
	if err != nil {
		t.Fatalf("Config failed: %s", err)
	}

	// non-global callback so we can tell when an update has been fully
	// dispatched by the callback goroutine.
	localNewCfg := make(chan *zzC09Config, 8)
	_, initSerial := d.ViewVersion()
	if d.RegisterCallback(ctx, initSerial, func(_ context.Context, _, nc *zzC09Config) { localNewCfg <- nc }) == nil {
		t.Fatal("RegisterCallback failed")
	}

	// 1. the installed config is invalid: enabling must fail and keep the delay in force.
	if c, _, vErr := d.EnableVerification(ctx); !errors.Is(vErr, errZZC09Invalid) {
		t.Fatalf("expected EnableVerification to fail with %v; got cfg=%+v err=%v", errZZC09Invalid, c, vErr)
	}

	// 2. an update arrives while the delay is in force: global callbacks are withheld.
	trueVal, one := true, "one"
	if sErr := src.send(ctx, zzC09Ptrified{Valid: &trueVal, Foo: &one}); sErr != nil {
		t.Fatalf("send failed: %s", sErr)
	}
	select {
	case nc := <-localNewCfg:
		if nc.Foo != one {
			t.Fatalf("unexpected config in registered callback: %+v", nc)
		}
	case <-time.After(5 * time.Second):
		t.Fatal("registered callback never ran for the update sent during the delay")
	}
	select {
	case nc := <-globalNewCfg:
		t.Fatalf("OnNewConfig delivered while the delay is in force and suppression is requested: %+v", nc)
	default:
	}

	// 3. retry: now the installed config is valid, so this switches verification on.
	c, _, vErr := d.EnableVerification(ctx)
	if vErr != nil {
		t.Fatalf("EnableVerification retry failed: %s", vErr)
	}
	if c.Foo != one || !c.Valid {
		t.Fatalf("EnableVerification returned unexpected config: %+v", c)
	}

	// 4. the delay is over: global callbacks must be delivered from now on.
	two := "two"
	if sErr := src.send(ctx, zzC09Ptrified{Valid: &trueVal, Foo: &two}); sErr != nil {
		t.Fatalf("send failed: %s", sErr)
	}
	select {
	case nc := <-globalNewCfg:
		if nc.Foo != two {
			t.Errorf("unexpected config in OnNewConfig: %+v", nc)
		}
	case <-time.After(3 * time.Second):
		t.Errorf("OnNewConfig not delivered for an update installed after EnableVerification succeeded (view: %+v)", d.View())
	}

	srcErr := errors.New("zzC09: source trouble")
	if rErr := src.args.ReportError(ctx, srcErr); rErr != nil {
		t.Fatalf("ReportError failed: %s", rErr)
	}
	select {
	case e := <-globalErr:
		if !errors.Is(e, srcErr) {
			t.Errorf("unexpected error in OnWatchedError: %s", e)
		}
	case <-time.After(3 * time.Second):
		t.Errorf("OnWatchedError not delivered for a source-reported error after EnableVerification succeeded")
	}
}

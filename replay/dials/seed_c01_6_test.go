// place in: . (the module root, package dials_test)
package dials_test

import (
	"context"
	"reflect"
	"testing"

	"github.com/vimeo/dials"
)

type demoSeedC013Cfg_r5c01_6 struct {
	Prefix string
	Port   int
	Inner  struct {
		Suffix string
		On     bool
	}
}

// demoSeedC013Src sets Prefix and/or Inner.Suffix (when the corresponding
// pointer is non-nil) on the pointerified type it is handed; every other leaf
// is left unset.
type demoSeedC013Src_r5c01_6 struct {
	prefix *string
	suffix *string
}

func (s *demoSeedC013Src_r5c01_6) Value(_ context.Context, t *dials.Type) (reflect.Value, error) {
	out := reflect.New(t.Type()).Elem()
	if s.prefix != nil {
		out.FieldByName("Prefix").Set(reflect.ValueOf(s.prefix))
	}
	if s.suffix != nil {
		inner := out.FieldByName("Inner")
		inner.Set(reflect.New(inner.Type().Elem()))
		inner.Elem().FieldByName("Suffix").Set(reflect.ValueOf(s.suffix))
	}
	return out, nil
}

func demoSeedC013Str_r5c01_6(s string) *string { return &s }

func demoSeedC013Default_r5c01_6() *demoSeedC013Cfg_r5c01_6 {
	c := &demoSeedC013Cfg_r5c01_6{Prefix: "dflt-", Port: 80}
	c.Inner.Suffix = ".d"
	c.Inner.On = true
	return c
}

// The last layer explicitly sets Prefix to "" (the pointer is non-nil, so the
// leaf IS set); it must win over the earlier layer's "l1-".
func TestDemoSeedC01ExplicitEmptyStringFromLastLayerWins_r5c01_6(t *testing.T) {
	l1 := &demoSeedC013Src_r5c01_6{prefix: demoSeedC013Str_r5c01_6("l1-"), suffix: demoSeedC013Str_r5c01_6(".l1")}
	l2 := &demoSeedC013Src_r5c01_6{prefix: demoSeedC013Str_r5c01_6("")}
	d, err := dials.Config(context.Background(), demoSeedC013Default_r5c01_6(), l1, l2)
	if err != nil {
		t.Fatalf("unexpected error: %s", err)
	}
	got := d.View()
	if got.Prefix != "" {
		t.Errorf("Prefix: last layer set it to \"\"; got %q", got.Prefix)
	}
	if got.Inner.Suffix != ".l1" {
		t.Errorf("Inner.Suffix: only layer 1 set it, expected %q; got %q", ".l1", got.Inner.Suffix)
	}
	if got.Port != 80 || !got.Inner.On {
		t.Errorf("unset leaves changed: Port=%d On=%t", got.Port, got.Inner.On)
	}
}

// A single source explicitly sets a nested string leaf to "": it must
// override the (non-empty) default.
func TestDemoSeedC01ExplicitEmptyStringOverridesDefault_r5c01_6(t *testing.T) {
	src := &demoSeedC013Src_r5c01_6{suffix: demoSeedC013Str_r5c01_6("")}
	d, err := dials.Config(context.Background(), demoSeedC013Default_r5c01_6(), src)
	if err != nil {
		t.Fatalf("unexpected error: %s", err)
	}
	got := d.View()
	if got.Inner.Suffix != "" {
		t.Errorf("Inner.Suffix: the source set it to \"\"; got %q", got.Inner.Suffix)
	}
	if got.Prefix != "dflt-" {
		t.Errorf("Prefix: no source set it, expected default %q; got %q", "dflt-", got.Prefix)
	}
}

package dials

// Replay tests for obligations of overlay.go (C01).  Injected into package dials with `go test -overlay`.

import (
	"context"
	"reflect"
	"testing"
)

// rpFnSource allocates a value of the pointerified type it is handed and lets a callback set fields.
type rpFnSource func(v reflect.Value)

func (f rpFnSource) Value(_ context.Context, t *Type) (reflect.Value, error) {
	v := reflect.New(t.Type())
	f(v.Elem())
	return v, nil
}

// a user-declared pointer to a non-struct: set in the defaults AND by a layer (overlayField, both non-nil)
func TestReplay_C01_UserPointerSetInDefaultsAndLayer(t *testing.T) {
	type cfg struct {
		A *int
		B string
	}
	d, l := 1, 2
	setA := rpFnSource(func(v reflect.Value) { v.FieldByName("A").Set(reflect.ValueOf(&l)) })
	c, err := Config(context.Background(), &cfg{A: &d, B: "x"}, setA)
	if err != nil {
		t.Fatalf("Config: %v", err)
	}
	got := c.View()
	if got.A == nil || *got.A != 2 || got.B != "x" {
		t.Errorf("got A=%v B=%q, want A->2 B=x", got.A, got.B)
	}
	if d != 1 {
		t.Errorf("the caller's default was modified: %d", d)
	}
}

// the same pointer set by two layers: the last one wins; an untouched pointer keeps the default
func TestReplay_C01_UserPointerSetByTwoLayers(t *testing.T) {
	type cfg struct {
		A *int
		B *string
	}
	l1, l2 := 10, 20
	s := "dflt"
	set1 := rpFnSource(func(v reflect.Value) { v.FieldByName("A").Set(reflect.ValueOf(&l1)) })
	set2 := rpFnSource(func(v reflect.Value) { v.FieldByName("A").Set(reflect.ValueOf(&l2)) })
	c, err := Config(context.Background(), &cfg{B: &s}, set1, set2)
	if err != nil {
		t.Fatalf("Config: %v", err)
	}
	got := c.View()
	if got.A == nil || *got.A != 20 || got.B == nil || *got.B != "dflt" {
		t.Errorf("got %+v", got)
	}
}

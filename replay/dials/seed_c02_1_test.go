// place in: . (repository root, package dials_test)
package dials_test

import (
	"context"
	"reflect"
	"testing"

	"github.com/vimeo/dials"
)

type demoSeed1Cfg struct {
	Name string
	Tags map[string]string
	Hops []int
}

// demoSeed1StructSource keeps the value it reports (as most caching/watching
// sources do) and hands it to dials as a struct-kind reflect.Value (not a
// pointer), just like sources built on transform.ReverseTranslate do.
type demoSeed1StructSource struct {
	kept reflect.Value
}

func (s *demoSeed1StructSource) Value(_ context.Context, t *dials.Type) (reflect.Value, error) {
	if !s.kept.IsValid() {
		v := reflect.New(t.Type()).Elem()
		v.FieldByName("Tags").Set(reflect.ValueOf(map[string]string{"region": "eu"}))
		v.FieldByName("Hops").Set(reflect.ValueOf([]int{1, 2, 3}))
		s.kept = v
	}
	return s.kept, nil
}

func TestDemoSeedC02StructKindSourceValueIsCopied(t *testing.T) {
	ctx := context.Background()
	src := &demoSeed1StructSource{}

	d1, err := dials.Config(ctx, &demoSeed1Cfg{Name: "dflt"}, src)
	if err != nil {
		t.Fatalf("config 1: %s", err)
	}
	d2, err := dials.Config(ctx, &demoSeed1Cfg{Name: "dflt"}, src)
	if err != nil {
		t.Fatalf("config 2: %s", err)
	}
	c1, c2 := d1.View(), d2.View()
	if !reflect.DeepEqual(c1, c2) {
		t.Fatalf("stacking the same inputs twice gave different results: %+v vs %+v", c1, c2)
	}

	// mutate everything reachable from the first config
	c1.Tags["region"] = "mutated"
	c1.Tags["extra"] = "added"
	c1.Hops[0] = 99

	srcTags := s2m(src.kept.FieldByName("Tags"))
	srcHops := src.kept.FieldByName("Hops").Interface().([]int)
	if srcTags["region"] != "eu" || len(srcTags) != 1 {
		t.Errorf("source's map was modified through the config: %v", srcTags)
	}
	if srcHops[0] != 1 {
		t.Errorf("source's slice was modified through the config: %v", srcHops)
	}
	if c2.Tags["region"] != "eu" || len(c2.Tags) != 1 {
		t.Errorf("second stacking shares its map with the first: %v", c2.Tags)
	}
	if c2.Hops[0] != 1 {
		t.Errorf("second stacking shares its slice with the first: %v", c2.Hops)
	}
}

func s2m(v reflect.Value) map[string]string {
	return v.Interface().(map[string]string)
}

package dials

import (
	"context"
	"reflect"
	"testing"
	"time"
)

// zzDemo1Src is a minimal watching source that only records the arguments of
// its Watch call so that the test can drive the monitor goroutine by hand.
type zzDemo1Src struct {
	initial interface{}
	t       *Type
	args    WatchArgs
}

func (s *zzDemo1Src) Value(_ context.Context, t *Type) (reflect.Value, error) {
	return reflect.ValueOf(s.initial).Convert(t.t), nil
}

func (s *zzDemo1Src) Watch(_ context.Context, t *Type, args WatchArgs) error {
	s.t = t
	s.args = args
	return nil
}

// A callback that registers with the serial of a version that has already been
// stored, but whose new-config event has not been queued yet, must not be
// handed that very version again once the event shows up.
func TestZZDemoC06NoDeliveryOfRegisteredVersion(t *testing.T) {
	type cfgT struct {
		Foo string
	}
	type ptrCfgT struct {
		Foo *string
	}
	strp := func(s string) *string { return &s }

	ctx, cancel := context.WithTimeout(context.Background(), 10*time.Second)
	defer cancel()

	src := &zzDemo1Src{initial: ptrCfgT{Foo: strp("v0")}}
	d, err := Config(ctx, &cfgT{}, src)
	if err != nil {
		t.Fatalf("config failed: %s", err)
	}
	wa, ok := src.args.(*watchArgs)
	if !ok {
		t.Fatalf("unexpected WatchArgs implementation %T", src.args)
	}

	// Hand version 1 to the monitor with an unbuffered "installed" channel:
	// the monitor stores the new version, then parks on that channel
	// _before_ it queues the new-config event for version 1.
	installed := make(chan error)
	select {
	case wa.c <- &valueUpdate{
		source:    src,
		value:     reflect.ValueOf(ptrCfgT{Foo: strp("v1")}).Convert(src.t.t),
		installed: installed,
	}:
	case <-ctx.Done():
		t.Fatal("timed out submitting v1")
	}
	// wait until version 1 is visible (it is stored before the monitor parks)
	for d.View().Foo != "v1" {
		if ctx.Err() != nil {
			t.Fatal("timed out waiting for v1 to be stored")
		}
		time.Sleep(time.Millisecond)
	}

	cur, serial := d.ViewVersion()
	if cur.Foo != "v1" {
		t.Fatalf("unexpected current version %q", cur.Foo)
	}

	type call struct{ oldFoo, newFoo string }
	calls := make(chan call, 16)
	unreg := d.RegisterCallback(ctx, serial, func(_ context.Context, oldC, newC *cfgT) {
		c := call{oldFoo: "<nil>", newFoo: "<nil>"}
		if oldC != nil {
			c.oldFoo = oldC.Foo
		}
		if newC != nil {
			c.newFoo = newC.Foo
		}
		calls <- c
	})
	if unreg == nil {
		t.Fatal("registration failed")
	}

	// Release the monitor; it now queues the event for version 1 _behind_
	// our registration.
	select {
	case err := <-installed:
		if err != nil {
			t.Fatalf("install of v1 failed: %s", err)
		}
	case <-ctx.Done():
		t.Fatal("timed out waiting for the monitor")
	}

	// Version 2 is a perfectly ordinary update.
	if err := src.args.BlockingReportNewValue(ctx,
		reflect.ValueOf(ptrCfgT{Foo: strp("v2")}).Convert(src.t.t)); err != nil {
		t.Fatalf("install of v2 failed: %s", err)
	}
	// The monitor only picks up the next report after it has queued the
	// event for version 2.
	if err := src.args.ReportError(ctx, context.Canceled); err != nil {
		t.Fatalf("failed to sync with the monitor: %s", err)
	}
	// ... and the callback goroutine only acknowledges this unregistration
	// after it has worked through everything queued before it.
	if !d.RegisterCallback(ctx, CfgSerial[cfgT]{}, func(context.Context, *cfgT, *cfgT) {})(ctx) {
		t.Fatal("failed to sync with the callback goroutine")
	}
	if !unreg(ctx) {
		t.Fatal("unregister failed")
	}
	close(calls)

	got := []call{}
	for c := range calls {
		got = append(got, c)
	}
	for _, c := range got {
		if c.newFoo == cur.Foo {
			t.Errorf("callback registered with the serial of %q was handed that same version again (old=%q); all calls: %v",
				cur.Foo, c.oldFoo, got)
		}
	}
	if len(got) != 1 || got[0] != (call{oldFoo: "v1", newFoo: "v2"}) {
		t.Errorf("expected exactly one call v1->v2; got %v", got)
	}
}

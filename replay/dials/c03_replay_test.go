package dials

// Replay tests for obligations of deep_copy.go (C02, C03).  Injected into package dials with `go test -overlay`.
// Several of the failures are fatal (stack overflow): the test binary dying counts as a failed replay.

import (
	"context"
	"testing"
)

type rpNode struct {
	I any
	V int
}

// deepCopyIface, pointer held in an interface: the memo is not consulted, a cycle through it never ends.
// (The cyclic value sits in a slice so that ptrify's template devirtualisation is not involved.)
func TestReplay_C03_InterfaceHoldsPointerCycle(t *testing.T) {
	type cfg struct{ L []any }
	n := &rpNode{V: 1}
	n.I = n
	d, err := Config(context.Background(), &cfg{L: []any{n}})
	if err != nil {
		t.Fatal(err)
	}
	got := d.View()
	if len(got.L) != 1 {
		t.Fatalf("got %d elements", len(got.L))
	}
	c, ok := got.L[0].(*rpNode)
	if !ok || c == nil || c.V != 1 || c == n {
		t.Fatalf("not a copy: %#v", got.L[0])
	}
	if p, ok := c.I.(*rpNode); !ok || p != c {
		t.Errorf("the cycle through the interface was not preserved: I=%v node=%p", c.I, c)
	}
}

// deepCopyIface, typed nil pointer in an interface
func TestReplay_C03_TypedNilPointerInInterface(t *testing.T) {
	type cfg struct{ I any }
	d, err := Config(context.Background(), &cfg{I: (*int)(nil)})
	if err != nil {
		t.Fatal(err)
	}
	if p, ok := d.View().I.(*int); !ok || p != nil {
		t.Errorf("got %#v, want (*int)(nil)", d.View().I)
	}
}

// deepCopyMap reached through an interface: a map that contains itself
func TestReplay_C03_MapCycleThroughInterface(t *testing.T) {
	type cfg struct{ M map[string]any }
	m := map[string]any{"k": 1}
	m["self"] = m
	d, err := Config(context.Background(), &cfg{M: m})
	if err != nil {
		t.Fatal(err)
	}
	got := d.View().M
	if got["k"] != 1 {
		t.Fatalf("got %v", got["k"])
	}
	inner, ok := got["self"].(map[string]any)
	if !ok || inner["k"] != 1 {
		t.Fatalf("self entry lost: %T", got["self"])
	}
	inner["probe"] = true
	if _, shared := m["probe"]; shared {
		t.Errorf("the copy shares the input map")
	}
}

type rpMapA map[string]int
type rpMapB map[string]int

// deepCopyMap memo hit: the same map held under two named map types
func TestReplay_C03_SameMapUnderTwoNamedTypes(t *testing.T) {
	type cfg struct {
		X rpMapA
		Y rpMapB
	}
	m := rpMapA{"a": 1}
	d, err := Config(context.Background(), &cfg{X: m, Y: rpMapB(m)})
	if err != nil {
		t.Fatal(err)
	}
	got := d.View()
	if got.X["a"] != 1 || got.Y["a"] != 1 {
		t.Errorf("got %+v", got)
	}
}

type rpSelfSlice []rpSelfSlice

// deepCopySlice: slices are not memoized, a slice stored in its own backing array never ends
func TestReplay_C03_SelfContainingSlice(t *testing.T) {
	type cfg struct{ S rpSelfSlice }
	s := make(rpSelfSlice, 1)
	s[0] = s
	if _, err := Config(context.Background(), &cfg{S: s}); err != nil {
		t.Fatal(err)
	}
}

// registerPair replaces memo entries: two pointers to an array element stop being equal
func TestReplay_C03_SharedPointerIntoArray(t *testing.T) {
	type cfg struct {
		P1  *int
		Arr *[1]int
		P2  *int
	}
	arr := &[1]int{7}
	d, err := Config(context.Background(), &cfg{P1: &arr[0], Arr: arr, P2: &arr[0]})
	if err != nil {
		t.Fatal(err)
	}
	got := d.View()
	if got.P1 == nil || got.P2 == nil || *got.P1 != 7 || *got.P2 != 7 {
		t.Fatalf("values lost: %+v", got)
	}
	if got.P1 != got.P2 {
		t.Errorf("P1 and P2 were identical in the input and are different pointers in the copy")
	}
}

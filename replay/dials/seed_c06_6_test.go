// place in: ./
package dials

import (
	"context"
	"errors"
	"reflect"
	"sync/atomic"
	"testing"
	"time"
)

// seedC061Cfg is a config whose Verify() fails when Bad is set.
type seedC061Cfg_r7c06_6 struct {
	Name string
	Bad  bool
}

var seedC061ErrBad_r7c06_6 = errors.New("seedC061: bad config")

func (c *seedC061Cfg_r7c06_6) Verify() error {
	if c.Bad {
		return seedC061ErrBad_r7c06_6
	}
	return nil
}

type seedC061Ptrified_r7c06_6 struct {
	Name *string
	Bad  *bool
}

type seedC061Src_r7c06_6 struct {
	initial seedC061Ptrified_r7c06_6
	typ     *Type
	args    WatchArgs
}

func (s *seedC061Src_r7c06_6) Value(_ context.Context, t *Type) (reflect.Value, error) {
	return reflect.ValueOf(s.initial).Convert(t.Type()), nil
}

func (s *seedC061Src_r7c06_6) Watch(_ context.Context, t *Type, args WatchArgs) error {
	s.typ = t
	s.args = args
	return nil
}

func (s *seedC061Src_r7c06_6) seedC061Send(ctx context.Context, v seedC061Ptrified_r7c06_6) error {
	return s.args.ReportNewValue(ctx, reflect.ValueOf(v).Convert(s.typ.Type()))
}

// TestSeedC06ErrorCallbackSerializedWithNewConfigCallback checks that the
// OnWatchedError callback for a rejected (Verify() failing) version is run on
// the callback goroutine, i.e. strictly after the still-running OnNewConfig
// callback of the previously installed version has returned (one at a time,
// in order).
func TestDemoSeedC06ErrorCallbackSerializedWithNewConfigCallback_r7c06_6(t *testing.T) {
	ctx, cancel := context.WithTimeout(context.Background(), 15*time.Second)
	defer cancel()

	var inFlight int32   // number of global callbacks currently executing
	var overlaps int32   // number of times a callback observed another one running
	var newCfgDone int32 // set once the (slow) OnNewConfig call has returned

	newCfgStarted := make(chan struct{}, 4)
	release := make(chan struct{})
	errCalled := make(chan int32, 4) // carries the value of newCfgDone seen by the error callback

	enter := func() {
		if atomic.AddInt32(&inFlight, 1) > 1 {
			atomic.AddInt32(&overlaps, 1)
		}
	}
	leave := func() { atomic.AddInt32(&inFlight, -1) }

	p := Params[seedC061Cfg_r7c06_6]{
		OnNewConfig: func(ctx context.Context, oldCfg, newCfg *seedC061Cfg_r7c06_6) {
			enter()
			defer leave()
			newCfgStarted <- struct{}{}
			select {
			case <-release:
			case <-ctx.Done():
			}
			atomic.StoreInt32(&newCfgDone, 1)
		},
		OnWatchedError: func(ctx context.Context, err error, oldCfg, newCfg *seedC061Cfg_r7c06_6) {
			enter()
			defer leave()
			errCalled <- atomic.LoadInt32(&newCfgDone)
		},
	}

	first := "first"
	src := &seedC061Src_r7c06_6{initial: seedC061Ptrified_r7c06_6{Name: &first}}
	base := seedC061Cfg_r7c06_6{}
	d, err := p.Config(ctx, &base, src)
	if err != nil {
		t.Fatalf("Config failed: %s", err)
	}

	// install a good version; its OnNewConfig callback blocks until released.
	second := "second"
	if err := src.seedC061Send(ctx, seedC061Ptrified_r7c06_6{Name: &second}); err != nil {
		t.Fatalf("send failed: %s", err)
	}
	select {
	case <-newCfgStarted:
	case <-ctx.Done():
		t.Fatal("timed out waiting for OnNewConfig to start")
	}

	// now submit a version that fails Verify() while the OnNewConfig callback is
	// still running. The blocking variant returns once the monitor goroutine has
	// handled (and rejected) the value.
	third := "third"
	bad := true
	bctx, bcancel := context.WithTimeout(ctx, 5*time.Second)
	repErr := src.args.BlockingReportNewValue(bctx,
		reflect.ValueOf(seedC061Ptrified_r7c06_6{Name: &third, Bad: &bad}).Convert(src.typ.Type()))
	bcancel()
	if !errors.Is(repErr, seedC061ErrBad_r7c06_6) {
		t.Fatalf("unexpected result for the bad value: %v", repErr)
	}

	// The error event is queued behind the running OnNewConfig callback, so the
	// error callback must not run before that one is released.
	gotErrCB := false
	select {
	case done := <-errCalled:
		gotErrCB = true
		if done == 0 {
			t.Errorf("OnWatchedError ran while the earlier OnNewConfig callback was still running " +
				"(callbacks must run one at a time, in order)")
		}
	case <-time.After(300 * time.Millisecond):
		// good: nothing yet
	}

	close(release)

	if !gotErrCB {
		select {
		case done := <-errCalled:
			if done == 0 {
				t.Errorf("OnWatchedError ran before the earlier OnNewConfig callback returned")
			}
		case <-ctx.Done():
			t.Fatal("timed out waiting for OnWatchedError")
		}
	}
	if n := atomic.LoadInt32(&overlaps); n != 0 {
		t.Errorf("global callbacks overlapped %d time(s); they must be serialized", n)
	}
	if d.View().Name != "second" {
		t.Errorf("unexpected installed config: %+v", d.View())
	}
}

// place in: ./
package dials

import (
	"context"
	"errors"
	"reflect"
	"sync/atomic"
	"testing"
	"time"
)

type seedC081Config_r7c08_5 struct {
	Foo string
}

type seedC081Ptrified_r7c08_5 struct {
	Foo *string
}

type seedC081Watcher_r7c08_5 struct {
	val  seedC081Ptrified_r7c08_5
	args WatchArgs
}

func (s *seedC081Watcher_r7c08_5) Value(_ context.Context, t *Type) (reflect.Value, error) {
	return reflect.ValueOf(s.val).Convert(t.Type()), nil
}

func (s *seedC081Watcher_r7c08_5) Watch(_ context.Context, _ *Type, args WatchArgs) error {
	s.args = args
	return nil
}

// seedC081CallbackChanClosed reports whether the monitor goroutine has closed
// the callback channel (which it does on exit, letting the callback goroutine
// drain and exit as well).
func seedC081CallbackChanClosed_r7c08_5(d *Dials[seedC081Config_r7c08_5]) (closed bool) {
	defer func() {
		if r := recover(); r != nil {
			closed = true
		}
	}()
	select {
	case d.cbch <- &watchErrorEvent[seedC081Config_r7c08_5]{err: errors.New("seedC081 probe")}:
	default:
	}
	return false
}

func seedC081Run_r7c08_5(t *testing.T, doneOrder []int) {
	ctx, cancel := context.WithCancel(context.Background())
	defer cancel()

	errCBs := int32(0)
	p := Params[seedC081Config_r7c08_5]{
		OnWatchedError: func(context.Context, error, *seedC081Config_r7c08_5, *seedC081Config_r7c08_5) {
			atomic.AddInt32(&errCBs, 1)
		},
	}
	ws := []*seedC081Watcher_r7c08_5{{}, {}}
	base := seedC081Config_r7c08_5{Foo: "foo"}
	d, err := p.Config(ctx, &base, ws[0], ws[1])
	if err != nil {
		t.Fatalf("Config failed: %s", err)
	}

	// both sources are alive: a report must get through.
	{
		v := "bar"
		rctx, rcancel := context.WithTimeout(ctx, 5*time.Second)
		if rErr := ws[0].args.BlockingReportNewValue(rctx, reflect.ValueOf(seedC081Ptrified_r7c08_5{Foo: &v})); rErr != nil {
			t.Fatalf("report while everybody is watching failed: %s", rErr)
		}
		rcancel()
		if got := d.View().Foo; got != "bar" {
			t.Fatalf("unexpected value %q", got)
		}
	}

	// Every watching source says that it is done (Done hands its message to
	// the monitor synchronously).
	for _, idx := range doneOrder {
		dctx, dcancel := context.WithTimeout(ctx, 5*time.Second)
		ws[idx].args.Done(dctx)
		if dctx.Err() != nil {
			t.Fatalf("Done for source %d was not accepted within 5s", idx)
		}
		dcancel()
	}

	// Now the monitor must be gone: nobody may accept another report.
	for _, w := range ws {
		rctx, rcancel := context.WithTimeout(ctx, 500*time.Millisecond)
		rErr := w.args.ReportError(rctx, errors.New("seedC081 late error"))
		rcancel()
		if rErr == nil {
			t.Errorf("ReportError was accepted after every watching source called Done (order %v): the monitor goroutine is still running",
				doneOrder)
		}
	}
	// ... and the callback channel must have been closed so the callback goroutine exits
	deadline := time.Now().Add(3 * time.Second)
	closed := false
	for time.Now().Before(deadline) {
		if closed = seedC081CallbackChanClosed_r7c08_5(d); closed {
			break
		}
		time.Sleep(10 * time.Millisecond)
	}
	if !closed {
		t.Errorf("callback channel still open 3s after every watching source called Done (order %v): monitor and callback goroutines leaked",
			doneOrder)
	}
	if n := atomic.LoadInt32(&errCBs); n != 0 && closed {
		t.Errorf("error callback ran %d times after shutdown", n)
	}
}

func TestDemoSeedC081DoneInSourceOrder_r7c08_5(t *testing.T) {
	seedC081Run_r7c08_5(t, []int{0, 1})
}

func TestDemoSeedC081DoneInReverseSourceOrder_r7c08_5(t *testing.T) {
	seedC081Run_r7c08_5(t, []int{1, 0})
}

// DROP-IN LOCATION: package dials, at the repository root, as zz_demo_test.go
// Run with:
//   go test -vet=off -count=1 -run 'TestZZDemoC07BlockingReportCtxEndsBeforeInstall' .
//
// Property C07: when the context of a blocking report ends before the value is
// installed, BlockingReportNewValue returns a context error and the monitor is
// NEVER left blocked on the (departed) caller.
//
// Scenario: the blocking report is accepted by the monitor, the monitor is held
// inside Verify() for the re-stacked value, the reporter's context is cancelled
// (so the reporter returns a context error and stops listening), then Verify()
// is released.  The monitor must finish installing that value and must still
// process a subsequent report.
package dials

import (
	"context"
	"errors"
	"reflect"
	"testing"
	"time"
)

var (
	zzC07VerifyEntered = make(chan struct{}, 8)
	zzC07VerifyGate    = make(chan struct{})
)

type zzC07Config struct {
	Hold bool
	Foo  string
}

// Verify runs on the monitor goroutine for every re-stack. When Hold is set
// it parks the monitor until the test releases the gate.
func (c zzC07Config) Verify() error {
	if c.Hold {
		zzC07VerifyEntered <- struct{}{}
		<-zzC07VerifyGate
	}
	return nil
}

type zzC07Ptrified struct {
	Hold *bool
	Foo  *string
}

type zzC07Source struct {
	t    *Type
	args WatchArgs
}

func (s *zzC07Source) Value(_ context.Context, t *Type) (reflect.Value, error) {
	return reflect.ValueOf(zzC07Ptrified{}).Convert(t.Type()), nil
}

func (s *zzC07Source) Watch(_ context.Context, t *Type, args WatchArgs) error {
	s.t = t
	s.args = args
	return nil
}

func TestZZDemoC07BlockingReportCtxEndsBeforeInstall(t *testing.T) {
	ctx, cancel := context.WithCancel(context.Background())
	defer cancel()

	src := &zzC07Source{}
	base := zzC07Config{Foo: "base"}
	d, err := Config(ctx, &base, src)
	if err != nil {
		t.Fatalf("Config failed: %s", err)
	}

	// 1. submit a blocking report whose verification parks the monitor.
	holdVal, first := true, "first"
	repCtx, repCancel := context.WithCancel(ctx)
	defer repCancel()
	repErr := make(chan error, 1)
	go func() {
		repErr <- src.args.BlockingReportNewValue(repCtx,
			reflect.ValueOf(zzC07Ptrified{Hold: &holdVal, Foo: &first}).Convert(src.t.Type()))
	}()

	select {
	case <-zzC07VerifyEntered:
	case <-time.After(5 * time.Second):
		t.Fatal("monitor never reached Verify() for the blocking report")
	}

	// 2. the reporter's context ends between submission and installation.
	repCancel()
	select {
	case e := <-repErr:
		if !errors.Is(e, context.Canceled) {
			t.Fatalf("expected a context error from BlockingReportNewValue; got %v", e)
		}
	case <-time.After(5 * time.Second):
		t.Fatal("BlockingReportNewValue did not return after its context was cancelled")
	}

	// 3. let the monitor finish stacking the abandoned report.
	close(zzC07VerifyGate)

	// 4. the monitor must not be stuck on the departed caller: a later
	// (non-blocking) report must be accepted and installed.
	noHold, second := false, "second"
	sendCtx, sendCancel := context.WithTimeout(ctx, 3*time.Second)
	defer sendCancel()
	if sendErr := src.args.ReportNewValue(sendCtx,
		reflect.ValueOf(zzC07Ptrified{Hold: &noHold, Foo: &second}).Convert(src.t.Type())); sendErr != nil {
		t.Fatalf("monitor is blocked: later report was never accepted: %s (view: %+v)", sendErr, d.View())
	}

	deadline := time.Now().Add(3 * time.Second)
	for d.View().Foo != second {
		if time.Now().After(deadline) {
			t.Fatalf("later report never installed; view: %+v", d.View())
		}
		time.Sleep(time.Millisecond)
	}
}

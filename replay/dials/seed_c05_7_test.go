// place in: ./
package dials

import (
	"context"
	"errors"
	"reflect"
	"testing"
	"time"
)

// seedC05k2Cfg only verifies once a (watched) source has supplied Token.
type seedC05k2Cfg_r7c05_7 struct {
	Token string
	Foo   string
}

var errSeedC05k2NoToken_r7c05_7 = errors.New("seedC05k2: Token must be set")

func (c seedC05k2Cfg_r7c05_7) Verify() error {
	if c.Token == "" {
		return errSeedC05k2NoToken_r7c05_7
	}
	return nil
}

type seedC05k2Ptrified_r7c05_7 struct {
	Token *string
	Foo   *string
}

type seedC05k2Watcher_r7c05_7 struct {
	t    *Type
	args WatchArgs
}

func (w *seedC05k2Watcher_r7c05_7) Value(_ context.Context, t *Type) (reflect.Value, error) {
	return reflect.New(t.Type()), nil
}

func (w *seedC05k2Watcher_r7c05_7) Watch(_ context.Context, t *Type, args WatchArgs) error {
	w.t = t
	w.args = args
	return nil
}

func (w *seedC05k2Watcher_r7c05_7) report(ctx context.Context, v seedC05k2Ptrified_r7c05_7) error {
	return w.args.BlockingReportNewValue(ctx, reflect.ValueOf(v).Convert(w.t.Type()))
}

func seedC05k2Str_r7c05_7(s string) *string { return &s }

// SkipInitialVerification only skips the Verify() call inside Config(): every
// re-stack triggered by a watching source is verified, and a stack that does
// not verify must leave the last verified view (and its serial) in place.
func TestDemoSeedC05k2SkipInitialVerificationStillVerifiesUpdates_r7c05_7(t *testing.T) {
	ctx, cancel := context.WithTimeout(context.Background(), 15*time.Second)
	defer cancel()

	var watchedErrs []error
	errCh := make(chan error, 16)
	w := &seedC05k2Watcher_r7c05_7{}
	d, err := Params[seedC05k2Cfg_r7c05_7]{
		SkipInitialVerification: true,
		OnWatchedError: func(_ context.Context, err error, _, _ *seedC05k2Cfg_r7c05_7) {
			errCh <- err
		},
	}.Config(ctx, &seedC05k2Cfg_r7c05_7{Foo: "default"}, w)
	if err != nil {
		t.Fatalf("Config failed (initial verification should have been skipped): %s", err)
	}

	// The watched source supplies the missing piece: verifies, gets installed.
	if repErr := w.report(ctx, seedC05k2Ptrified_r7c05_7{Token: seedC05k2Str_r7c05_7("tok"), Foo: seedC05k2Str_r7c05_7("one")}); repErr != nil {
		t.Fatalf("valid report failed: %s", repErr)
	}
	good, goodTok := d.ViewVersion()
	if good.Token != "tok" || good.Foo != "one" || goodTok.s != 1 {
		t.Fatalf("unexpected view after valid report: %+v (serial %d)", *good, goodTok.s)
	}

	// The source now drops Token again: that stack does not verify, so the
	// report has to be rejected and the previous view has to stay.
	repErr := w.report(ctx, seedC05k2Ptrified_r7c05_7{Foo: seedC05k2Str_r7c05_7("two")})
	if repErr == nil {
		t.Errorf("a report whose stack fails Verify() was accepted")
	} else if !errors.Is(repErr, errSeedC05k2NoToken_r7c05_7) {
		t.Errorf("unexpected error for rejected report: %s", repErr)
	}
	cur, curTok := d.ViewVersion()
	if cur != good || curTok.s != goodTok.s {
		t.Errorf("view changed to %+v (serial %d) by a stack that fails Verify(); expected to keep %+v (serial %d)",
			*cur, curTok.s, *good, goodTok.s)
	}
	if vfErr := cur.Verify(); vfErr != nil {
		t.Errorf("current view does not verify: %s", vfErr)
	}
	select {
	case e := <-errCh:
		watchedErrs = append(watchedErrs, e)
	case <-time.After(2 * time.Second):
	}
	if len(watchedErrs) != 1 || !errors.Is(watchedErrs[0], errSeedC05k2NoToken_r7c05_7) {
		t.Errorf("expected exactly one OnWatchedError call with the Verify() error; got %v", watchedErrs)
	}
}

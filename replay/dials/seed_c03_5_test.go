// place in: ./ (worktree root, package dials)
package dials

import (
	"context"
	"reflect"
	"testing"
)

type demoSeedC032Node_r5c03_5 struct {
	Name  string
	Peers map[string]*demoSeedC032Node_r5c03_5
}

type demoSeedC032Cfg_r5c03_5 struct {
	// one map value is held by a map-typed field and by two interface-typed fields
	Index  map[string]*demoSeedC032Node_r5c03_5
	First  interface{}
	Second interface{}
}

func demoSeedC032Defaults_r5c03_5() *demoSeedC032Cfg_r5c03_5 {
	a := &demoSeedC032Node_r5c03_5{Name: "a"}
	b := &demoSeedC032Node_r5c03_5{Name: "b"}
	idx := map[string]*demoSeedC032Node_r5c03_5{"a": a, "b": b}
	// every node refers back to the shared index (map cycle)
	a.Peers = idx
	b.Peers = idx
	return &demoSeedC032Cfg_r5c03_5{Index: idx, First: idx, Second: idx}
}

func demoSeedC032MapPtr_r5c03_5(i interface{}) uintptr {
	return reflect.ValueOf(i).Pointer()
}

func demoSeedC032Check_r5c03_5(t *testing.T, in, out *demoSeedC032Cfg_r5c03_5) {
	t.Helper()
	if !reflect.DeepEqual(in, out) {
		t.Errorf("result not deeply equal to the defaults: got %+v; want %+v", out, in)
	}
	if _, ok := out.First.(map[string]*demoSeedC032Node_r5c03_5); !ok {
		t.Fatalf("unexpected dynamic type for First: %T", out.First)
	}
	if _, ok := out.Second.(map[string]*demoSeedC032Node_r5c03_5); !ok {
		t.Fatalf("unexpected dynamic type for Second: %T", out.Second)
	}
	if demoSeedC032MapPtr_r5c03_5(out.Index) == demoSeedC032MapPtr_r5c03_5(in.Index) {
		t.Errorf("Index is still the caller's map (not fresh)")
	}
	if demoSeedC032MapPtr_r5c03_5(out.First) == demoSeedC032MapPtr_r5c03_5(in.First) {
		t.Errorf("First is still the caller's map (not fresh)")
	}
	if demoSeedC032MapPtr_r5c03_5(out.First) != demoSeedC032MapPtr_r5c03_5(out.Index) {
		t.Errorf("map shared by a map field and an interface field was split: Index %#x; First %#x",
			demoSeedC032MapPtr_r5c03_5(out.Index), demoSeedC032MapPtr_r5c03_5(out.First))
	}
	if demoSeedC032MapPtr_r5c03_5(out.First) != demoSeedC032MapPtr_r5c03_5(out.Second) {
		t.Errorf("map shared by two interface fields was split: First %#x; Second %#x",
			demoSeedC032MapPtr_r5c03_5(out.First), demoSeedC032MapPtr_r5c03_5(out.Second))
	}
	if demoSeedC032MapPtr_r5c03_5(out.Index["a"].Peers) != demoSeedC032MapPtr_r5c03_5(out.Index) {
		t.Errorf("map cycle broken: Index[a].Peers %#x; Index %#x",
			demoSeedC032MapPtr_r5c03_5(out.Index["a"].Peers), demoSeedC032MapPtr_r5c03_5(out.Index))
	}
	// a write through one reference must be visible through the others
	out.Index["c"] = &demoSeedC032Node_r5c03_5{Name: "c"}
	if _, ok := out.Second.(map[string]*demoSeedC032Node_r5c03_5)["c"]; !ok {
		t.Errorf("entry added through Index is not visible through Second")
	}
}

func TestDemoSeedC032SharedMapInInterfacesDeepCopy_r5c03_5(t *testing.T) {
	in := demoSeedC032Defaults_r5c03_5()
	out := realDeepCopy(in).Interface().(*demoSeedC032Cfg_r5c03_5)
	demoSeedC032Check_r5c03_5(t, in, out)
}

func TestDemoSeedC032SharedMapInInterfacesConfig_r5c03_5(t *testing.T) {
	in := demoSeedC032Defaults_r5c03_5()
	d, err := Config(context.Background(), in)
	if err != nil {
		t.Fatalf("Config failed: %s", err)
	}
	demoSeedC032Check_r5c03_5(t, in, d.View())
}

// place in: . (repository root, package dials_test)
package dials_test

import (
	"context"
	"reflect"
	"testing"
	"time"

	"github.com/vimeo/dials"
)

type demoSeed3Cfg struct {
	Name string
	// fixed number of shards, each with its own list of replicas
	Shards [2][]string
}

// demoSeed3Watcher is a watching source which never sets anything; it is only
// used to trigger re-stacks.
type demoSeed3Watcher struct {
	typ  *dials.Type
	args dials.WatchArgs
}

func (w *demoSeed3Watcher) Value(_ context.Context, t *dials.Type) (reflect.Value, error) {
	return reflect.New(t.Type()), nil
}

func (w *demoSeed3Watcher) Watch(_ context.Context, t *dials.Type, args dials.WatchArgs) error {
	w.typ, w.args = t, args
	return nil
}

func TestDemoSeedC02ArrayOfSlicesIsCopied(t *testing.T) {
	ctx, cancel := context.WithTimeout(context.Background(), 10*time.Second)
	defer cancel()

	dflt := &demoSeed3Cfg{
		Name:   "dflt",
		Shards: [2][]string{{"a0", "a1"}, {"b0"}},
	}
	w := &demoSeed3Watcher{}
	d, err := dials.Config(ctx, dflt, w)
	if err != nil {
		t.Fatalf("config: %s", err)
	}
	v0 := d.View()

	// trigger a re-stack with an empty overlay
	if err := w.args.BlockingReportNewValue(ctx, reflect.New(w.typ.Type())); err != nil {
		t.Fatalf("re-stack: %s", err)
	}
	v1 := d.View()
	if v0 == v1 {
		t.Fatalf("no new version was installed")
	}
	if !reflect.DeepEqual(v0, v1) {
		t.Fatalf("versions differ: %+v vs %+v", v0, v1)
	}

	// scribble over the first version
	v0.Shards[0][1] = "mutated"
	v0.Shards[1][0] = "mutated"

	if want := [2][]string{{"a0", "a1"}, {"b0"}}; !reflect.DeepEqual(dflt.Shards, want) {
		t.Errorf("caller's defaults were modified through a config version: %q", dflt.Shards)
	}
	if want := [2][]string{{"a0", "a1"}, {"b0"}}; !reflect.DeepEqual(v1.Shards, want) {
		t.Errorf("version 1 shares slice backing arrays with version 0: %q", v1.Shards)
	}
}

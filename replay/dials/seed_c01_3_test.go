// place in: . (repository root, next to dials.go)
package dials_test

import (
	"context"
	"reflect"
	"testing"

	"github.com/vimeo/dials"
)

// fnSource3 is a Source which allocates a value of the (pointerified) type it
// is handed and lets a callback populate the fields it wants to "set".
type fnSource3 func(v reflect.Value)

func (f fnSource3) Value(_ context.Context, t *dials.Type) (reflect.Value, error) {
	v := reflect.New(t.Type())
	f(v.Elem())
	return v, nil
}

func setLeaf(v reflect.Value, name string, val interface{}) {
	l := v.FieldByName(name)
	p := reflect.New(l.Type().Elem())
	p.Elem().Set(reflect.ValueOf(val))
	l.Set(p)
}

// Exported fields tagged `dials:"-"` are skipped: they keep their default and
// do not shift the values of the layer into neighbouring fields.
func TestDemoSeedDashTaggedFieldIsSkippedWithoutShift(t *testing.T) {
	type cfg struct {
		A      int
		Secret int `dials:"-"`
		B      int
		c      int
	}

	setB := fnSource3(func(v reflect.Value) {
		if v.NumField() != 2 {
			t.Fatalf("unexpected pointerified type %s", v.Type())
		}
		setLeaf(v, "B", 7)
	})
	setA := fnSource3(func(v reflect.Value) { setLeaf(v, "A", 3) })

	def := cfg{A: 1, Secret: 42, B: 2, c: 9}
	var got *cfg
	func() {
		defer func() {
			if r := recover(); r != nil {
				t.Fatalf("Config panicked: %v", r)
			}
		}()
		d, err := dials.Config(context.Background(), &def, setA, setB)
		if err != nil {
			t.Fatalf("Config failed: %s", err)
		}
		got = d.View()
	}()
	if want := (cfg{A: 3, Secret: 42, B: 7, c: 9}); *got != want {
		t.Errorf("got %+v; want %+v", *got, want)
	}
}

// place in: ./
package dials

import (
	"context"
	"errors"
	"fmt"
	"reflect"
	"sync/atomic"
	"testing"
	"time"
)

var seedC093ErrInvalid_r6c09_7 = errors.New("seedC093: invalid config")

// seedC093VerifyCalls counts the Verify() invocations.
var seedC093VerifyCalls_r6c09_7 int32

type seedC093Cfg_r6c09_7 struct {
	Valid bool
	Foo   string
}

func (c *seedC093Cfg_r6c09_7) Verify() error {
	atomic.AddInt32(&seedC093VerifyCalls_r6c09_7, 1)
	if c.Valid {
		return nil
	}
	return seedC093ErrInvalid_r6c09_7
}

type seedC093Ptrified_r6c09_7 struct {
	Valid *bool
	Foo   *string
}

// seedC093StaticSrc is a plain (non-watching) source.
type seedC093StaticSrc_r6c09_7 struct {
	foo string
}

func (s *seedC093StaticSrc_r6c09_7) Value(_ context.Context, t *Type) (reflect.Value, error) {
	return reflect.ValueOf(seedC093Ptrified_r6c09_7{Foo: &s.foo}).Convert(t.t), nil
}

// Without watching sources: a failing EnableVerification leaves the delay in
// force, so a repeated call verifies the installed config again (and fails
// again, since nothing can have changed) instead of reporting success for a
// config that never passed Verify().
func TestDemoSeedC09FailedEnableWithoutWatchersCanBeRetried_r6c09_7(t *testing.T) {
	for _, suppress := range []bool{false, true} {
		suppress := suppress
		t.Run(fmt.Sprintf("suppress=%t", suppress), func(t *testing.T) {
			ctx, cancel := context.WithTimeout(context.Background(), 10*time.Second)
			defer cancel()

			atomic.StoreInt32(&seedC093VerifyCalls_r6c09_7, 0)
			base := seedC093Cfg_r6c09_7{Valid: false, Foo: "base"}
			d, cfgErr := Params[seedC093Cfg_r6c09_7]{
				DelayInitialVerification:                    true,
				CallGlobalCallbacksAfterVerificationEnabled: suppress,
			}.Config(ctx, &base, &seedC093StaticSrc_r6c09_7{foo: "static"})
			if cfgErr != nil {
				t.Fatalf("Config failed although verification is delayed: %s", cfgErr)
			}
			if n := atomic.LoadInt32(&seedC093VerifyCalls_r6c09_7); n != 0 {
				t.Fatalf("Verify() called %d times before EnableVerification", n)
			}

			for attempt := 1; attempt <= 3; attempt++ {
				cfg, tok, enErr := d.EnableVerification(ctx)
				if !errors.Is(enErr, seedC093ErrInvalid_r6c09_7) {
					t.Fatalf("attempt %d: EnableVerification returned (%+v, %+v, %v) for a config that fails Verify(); want error %v",
						attempt, cfg, tok, enErr, seedC093ErrInvalid_r6c09_7)
				}
				if n := atomic.LoadInt32(&seedC093VerifyCalls_r6c09_7); n != int32(attempt) {
					t.Fatalf("attempt %d: Verify() was called %d times in total; want %d", attempt, n, attempt)
				}
			}
		})
	}
}

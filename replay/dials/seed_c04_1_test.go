package dials

import (
	"context"
	"errors"
	"reflect"
	"testing"
	"time"
)

var errZZDemo1Invalid = errors.New("zzdemo1: config marked invalid")

type zzDemo1Cfg struct {
	Valid bool
	Foo   string
}

func (c *zzDemo1Cfg) Verify() error {
	if !c.Valid {
		return errZZDemo1Invalid
	}
	return nil
}

type zzDemo1Ptrified struct {
	Valid *bool
	Foo   *string
}

type zzDemo1Watcher struct {
	init zzDemo1Ptrified
	typ  *Type
	args WatchArgs
}

func (w *zzDemo1Watcher) Value(_ context.Context, t *Type) (reflect.Value, error) {
	return reflect.ValueOf(w.init).Convert(t.Type()), nil
}

func (w *zzDemo1Watcher) Watch(_ context.Context, t *Type, args WatchArgs) error {
	w.typ = t
	w.args = args
	return nil
}

// A blocking report of an update whose stacked result fails Verify() must
// return that verification error (and must leave view and version untouched).
func TestZZDemoBlockingReportReturnsVerifyError(t *testing.T) {
	ctx, cancel := context.WithTimeout(context.Background(), 2*time.Second)
	defer cancel()

	watchedErrs := make(chan error, 4)
	w := zzDemo1Watcher{}
	base := zzDemo1Cfg{Valid: true, Foo: "base"}
	d, err := Params[zzDemo1Cfg]{
		OnWatchedError: func(_ context.Context, err error, _, _ *zzDemo1Cfg) { watchedErrs <- err },
	}.Config(ctx, &base, &w)
	if err != nil {
		t.Fatalf("Config failed: %s", err)
	}

	// first a valid blocking update (verify succeeds)
	okFoo := "good"
	if repErr := w.args.BlockingReportNewValue(ctx,
		reflect.ValueOf(zzDemo1Ptrified{Foo: &okFoo}).Convert(w.typ.Type())); repErr != nil {
		t.Fatalf("blocking report of a valid update failed: %s", repErr)
	}
	curCfg, curSerial := d.ViewVersion()
	if curCfg.Foo != "good" || !curCfg.Valid {
		t.Fatalf("unexpected config after valid update: %+v", curCfg)
	}

	// now an update that stacks fine, but fails verification
	falseVal, badFoo := false, "bad"
	repErr := w.args.BlockingReportNewValue(ctx,
		reflect.ValueOf(zzDemo1Ptrified{Valid: &falseVal, Foo: &badFoo}).Convert(w.typ.Type()))
	if repErr == nil {
		t.Errorf("blocking report of an update that fails Verify() returned nil")
	} else if !errors.Is(repErr, errZZDemo1Invalid) {
		t.Errorf("blocking report returned unexpected error: %s", repErr)
	}

	afterCfg, afterSerial := d.ViewVersion()
	if afterCfg != curCfg || afterSerial != curSerial {
		t.Errorf("rejected update changed view/version: %+v (serial %+v); before %+v (serial %+v)",
			afterCfg, afterSerial, curCfg, curSerial)
	}
	if vErr := d.View().Verify(); vErr != nil {
		t.Errorf("visible config fails verification: %s", vErr)
	}

	select {
	case wErr := <-watchedErrs:
		if !errors.Is(wErr, errZZDemo1Invalid) {
			t.Errorf("OnWatchedError received unexpected error: %s", wErr)
		}
	case <-time.After(500 * time.Millisecond):
		t.Errorf("OnWatchedError not called for rejected update")
	}
}

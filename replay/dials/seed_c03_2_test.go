// place in: . (worktree root, package dials)
package dials

import (
	"context"
	"reflect"
	"testing"
)

type seedPairNode struct {
	Name  string
	Peers [][2]*seedPairNode
}

type seedPairCfg struct {
	// references held in arrays that are themselves slice elements
	Pairs [][2]*seedPairNode
	// the same nodes, referenced from a plain slice
	All []*seedPairNode
}

// TestDemoSeedPointersInArraysInSlices: pointers held in arrays that are the
// elements of a slice must be copied like every other reference: fresh, and
// identical to the copies of the same pointer reached another way; cycles
// through such arrays stay cycles.
func TestDemoSeedPointersInArraysInSlices(t *testing.T) {
	a := &seedPairNode{Name: "a"}
	b := &seedPairNode{Name: "b"}
	a.Peers = [][2]*seedPairNode{{a, b}} // self-loop and edge to b
	b.Peers = [][2]*seedPairNode{{b, a}} // cycle back to a
	def := &seedPairCfg{
		Pairs: [][2]*seedPairNode{{a, b}, {b, a}},
		All:   []*seedPairNode{a, b},
	}

	d, err := Config(context.Background(), def)
	if err != nil {
		t.Fatalf("Config failed: %s", err)
	}
	got := d.View()
	if !reflect.DeepEqual(def, got) {
		t.Errorf("result not deeply equal to defaults")
	}
	ga, gb := got.All[0], got.All[1]
	if ga == a || gb == b {
		t.Errorf("All[*] not fresh")
	}
	for i, pr := range got.Pairs {
		for j, p := range pr {
			if p == a || p == b {
				t.Errorf("Pairs[%d][%d] = %p is a pointer of the input graph (not fresh)", i, j, p)
			}
		}
	}
	if got.Pairs[0][0] != ga || got.Pairs[0][1] != gb || got.Pairs[1][0] != gb || got.Pairs[1][1] != ga {
		t.Errorf("pointers identical in the input are not identical in the result: Pairs=%v All=%v", got.Pairs, got.All)
	}
	if ga.Peers[0][0] != ga || ga.Peers[0][1] != gb || gb.Peers[0][0] != gb || gb.Peers[0][1] != ga {
		t.Errorf("cycles through arrays-in-slices lost: a.Peers=%v b.Peers=%v (a=%p b=%p)", ga.Peers, gb.Peers, ga, gb)
	}
	// mutating the result must not write through to the defaults
	got.Pairs[0][0].Name = "changed"
	if a.Name != "a" {
		t.Errorf("writing through the result changed the supplied defaults: a.Name=%q", a.Name)
	}
}

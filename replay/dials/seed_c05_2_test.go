package dials

import (
	"context"
	"reflect"
	"runtime"
	"sync"
	"sync/atomic"
	"testing"
	"time"
)

type zzDemoC05bSource struct {
	cur  interface{}
	typ  *Type
	args WatchArgs
}

func (s *zzDemoC05bSource) Value(_ context.Context, t *Type) (reflect.Value, error) {
	return reflect.ValueOf(s.cur).Convert(t.Type()), nil
}

func (s *zzDemoC05bSource) Watch(_ context.Context, t *Type, args WatchArgs) error {
	s.typ = t
	s.args = args
	return nil
}

// A config and a serial that are read together must belong together.
//
// The single watching source reports N=1, N=2, ... one at a time (blocking
// reports), so the k-th installed version has cfg.N == k == serial. Readers
// spin on ViewVersion() while installs happen and check cfg.N == serial and
// that the serial never goes backwards.
//
// This is a race demo: it needs a reader to sit between two loads while the
// monitor installs a version. It runs up to 400k installs (or 30s) against
// several spinning readers and stops at the first mismatch; with the change
// applied it trips within a few thousand installs on a multi-core machine
// (needs GOMAXPROCS >= 2). On the unmodified code it can never fail.
func TestZZDemoC05ViewVersionPairBelongsTogether(t *testing.T) {
	if runtime.GOMAXPROCS(0) < 2 {
		runtime.GOMAXPROCS(4)
	}
	type cfg struct {
		N uint64
	}
	type pcfg struct {
		N *uint64
	}

	ctx, cancel := context.WithTimeout(context.Background(), 30*time.Second)
	defer cancel()

	zero := uint64(0)
	defaults := cfg{}
	src := &zzDemoC05bSource{cur: pcfg{N: &zero}}
	d, err := Config(ctx, &defaults, src)
	if err != nil {
		t.Fatalf("Config: %s", err)
	}

	const installs = 400000
	nReaders := runtime.GOMAXPROCS(0) - 1
	if nReaders > 6 {
		nReaders = 6
	}
	if nReaders < 1 {
		nReaders = 1
	}

	var stop atomic.Bool
	var mismatches, backwards atomic.Int64
	var firstMismatch atomic.Value // string
	var wg sync.WaitGroup
	for r := 0; r < nReaders; r++ {
		wg.Add(1)
		go func() {
			defer wg.Done()
			lastSerial := uint64(0)
			for !stop.Load() {
				c, tok := d.ViewVersion()
				if c.N != tok.s || c != tok.cfg {
					if mismatches.Add(1) == 1 {
						firstMismatch.Store([2]uint64{c.N, tok.s})
					}
					stop.Store(true)
					return
				}
				if tok.s < lastSerial {
					backwards.Add(1)
					stop.Store(true)
					return
				}
				lastSerial = tok.s
			}
		}()
	}

	done := uint64(0)
	for k := uint64(1); k <= installs && !stop.Load() && ctx.Err() == nil; k++ {
		n := k
		v := pcfg{N: &n}
		src.cur = v
		if err := src.args.BlockingReportNewValue(ctx, reflect.ValueOf(v).Convert(src.typ.Type())); err != nil {
			stop.Store(true)
			wg.Wait()
			t.Fatalf("report %d: %s", k, err)
		}
		done = k
	}
	stop.Store(true)
	wg.Wait()

	if m := mismatches.Load(); m > 0 {
		p := firstMismatch.Load().([2]uint64)
		t.Errorf("ViewVersion returned a config and a serial from different versions (after %d installs): cfg.N=%d serial=%d",
			done, p[0], p[1])
	}
	if b := backwards.Load(); b > 0 {
		t.Errorf("a reader saw the serial go backwards")
	}
	// sequential sanity: the final pair matches and counts installs
	c, tok := d.ViewVersion()
	if c.N != done || tok.s != done {
		t.Errorf("final: cfg.N=%d serial=%d; want both %d", c.N, tok.s, done)
	}
}

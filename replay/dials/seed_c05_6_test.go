// place in: ./
package dials

import (
	"context"
	"errors"
	"reflect"
	"testing"
	"time"
)

// seedC05k1Cfg is rejected by Verify whenever Valid is false.
type seedC05k1Cfg_r7c05_6 struct {
	Valid bool
	Foo   string
}

var errSeedC05k1Invalid_r7c05_6 = errors.New("seedC05k1: invalid config")

func (c seedC05k1Cfg_r7c05_6) Verify() error {
	if c.Valid {
		return nil
	}
	return errSeedC05k1Invalid_r7c05_6
}

type seedC05k1Ptrified_r7c05_6 struct {
	Valid *bool
	Foo   *string
}

type seedC05k1Watcher_r7c05_6 struct {
	t    *Type
	args WatchArgs
}

func (w *seedC05k1Watcher_r7c05_6) Value(_ context.Context, t *Type) (reflect.Value, error) {
	return reflect.New(t.Type()), nil
}

func (w *seedC05k1Watcher_r7c05_6) Watch(_ context.Context, t *Type, args WatchArgs) error {
	w.t = t
	w.args = args
	return nil
}

// report blocks until the monitor has handled the value and returns the
// error the monitor signalled (nil if the new version was installed).
func (w *seedC05k1Watcher_r7c05_6) report(ctx context.Context, valid bool, foo string) error {
	v := reflect.ValueOf(seedC05k1Ptrified_r7c05_6{Valid: &valid, Foo: &foo}).Convert(w.t.Type())
	return w.args.BlockingReportNewValue(ctx, v)
}

// Serials must count installs: a report whose re-stacked config is rejected
// by Verify() installs nothing and therefore must not consume a serial.
func TestDemoSeedC05k1SerialCountsInstallsNotReports_r7c05_6(t *testing.T) {
	ctx, cancel := context.WithTimeout(context.Background(), 15*time.Second)
	defer cancel()

	w := &seedC05k1Watcher_r7c05_6{}
	d, err := Config(ctx, &seedC05k1Cfg_r7c05_6{Valid: true, Foo: "default"}, w)
	if err != nil {
		t.Fatalf("Config failed: %s", err)
	}

	_, tok0 := d.ViewVersion()
	if tok0.s != 0 {
		t.Fatalf("initial serial is %d; expected 0", tok0.s)
	}

	type step struct {
		valid bool
		foo   string
	}
	steps := []step{
		{true, "one"},
		{false, "rejected-a"},
		{false, "rejected-b"},
		{true, "two"},
		{false, "rejected-c"},
		{true, "three"},
	}

	expSerial := uint64(0)
	expFoo := "default"
	for i, s := range steps {
		repErr := w.report(ctx, s.valid, s.foo)
		if s.valid {
			if repErr != nil {
				t.Fatalf("step %d: valid report failed: %s", i, repErr)
			}
			expSerial++
			expFoo = s.foo
		} else if repErr == nil {
			t.Fatalf("step %d: invalid report was not rejected", i)
		}
		cfg, tok := d.ViewVersion()
		if cfg.Foo != expFoo {
			t.Errorf("step %d: view has Foo=%q; expected %q", i, cfg.Foo, expFoo)
		}
		if tok.s != expSerial {
			t.Errorf("step %d (%+v): serial is %d after %d installs; expected %d",
				i, s, tok.s, expSerial, expSerial)
		}
	}
}

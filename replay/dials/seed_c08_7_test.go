// place in: ./
package dials

import (
	"context"
	"reflect"
	"testing"
	"time"
)

type seedC083Config_r7c08_7 struct {
	Name  string
	Limit *int
}

// seedC083Good has the shape a source is expected to report for seedC083Config.
type seedC083Good_r7c08_7 struct {
	Name  *string
	Limit *int
}

// seedC083Bad is what a sloppy source reports: Limit has the wrong pointer
// type, which the overlay code rejects with an error (no panic).
type seedC083Bad_r7c08_7 struct {
	Name  *string
	Limit *string
}

type seedC083Watcher_r7c08_7 struct {
	args WatchArgs
}

func (s *seedC083Watcher_r7c08_7) Value(_ context.Context, t *Type) (reflect.Value, error) {
	return reflect.New(t.Type()), nil
}

func (s *seedC083Watcher_r7c08_7) Watch(_ context.Context, _ *Type, args WatchArgs) error {
	s.args = args
	return nil
}

func TestDemoSeedC083StackingFailureOfReportedValue_r7c08_7(t *testing.T) {
	ctx, cancel := context.WithCancel(context.Background())
	defer cancel()

	type errCBArgs struct {
		err            error
		oldCfg, newCfg *seedC083Config_r7c08_7
	}
	errCh := make(chan errCBArgs, 4)
	p := Params[seedC083Config_r7c08_7]{
		OnWatchedError: func(_ context.Context, err error, oldCfg, newCfg *seedC083Config_r7c08_7) {
			errCh <- errCBArgs{err: err, oldCfg: oldCfg, newCfg: newCfg}
		},
	}
	limit := 10
	base := seedC083Config_r7c08_7{Name: "base", Limit: &limit}
	w := seedC083Watcher_r7c08_7{}
	d, err := p.Config(ctx, &base, &w)
	if err != nil {
		t.Fatalf("Config failed: %s", err)
	}
	if got := d.View(); got.Name != "base" || got.Limit == nil || *got.Limit != 10 {
		t.Fatalf("unexpected initial config: %+v", got)
	}

	// a value that cannot be stacked: must be reported as an error, both to
	// the reporter and to the error callback, and nothing else.
	n, badLimit := "bad", "eleven"
	rctx, rcancel := context.WithTimeout(ctx, 5*time.Second)
	defer rcancel()
	repErr := w.args.BlockingReportNewValue(rctx, reflect.ValueOf(seedC083Bad_r7c08_7{Name: &n, Limit: &badLimit}))
	if repErr == nil {
		t.Fatalf("unstackable value was reported as installed; config now: %+v", d.View())
	}
	if rctx.Err() != nil {
		t.Fatalf("report of the unstackable value was not answered within 5s: %s", repErr)
	}
	select {
	case a := <-errCh:
		if a.err == nil || a.oldCfg == nil || a.newCfg != nil {
			t.Errorf("unexpected error-callback arguments: err=%v old=%+v new=%+v", a.err, a.oldCfg, a.newCfg)
		}
	case <-time.After(5 * time.Second):
		t.Errorf("error callback not called within 5s for the stacking failure (%s)", repErr)
	}
	if got := d.View(); got.Name != "base" || got.Limit == nil || *got.Limit != 10 {
		t.Errorf("config changed by an unstackable value: %+v", got)
	}

	// the library must still be alive: a well-formed value gets installed.
	n2, l2 := "good", 12
	r2ctx, r2cancel := context.WithTimeout(ctx, 5*time.Second)
	defer r2cancel()
	if rep2Err := w.args.BlockingReportNewValue(r2ctx, reflect.ValueOf(seedC083Good_r7c08_7{Name: &n2, Limit: &l2})); rep2Err != nil {
		t.Fatalf("well-formed value after a stacking failure was not installed: %s", rep2Err)
	}
	if got := d.View(); got.Name != "good" || got.Limit == nil || *got.Limit != 12 {
		t.Errorf("unexpected config after well-formed report: %+v", got)
	}
}

// place in: . (repository root, package dials)
package dials

import (
	"context"
	"reflect"
	"testing"
	"time"
)

type demoSeedc05_3x1Src struct {
	val  interface{}
	t    *Type
	args WatchArgs
}

func (s *demoSeedc05_3x1Src) Value(_ context.Context, t *Type) (reflect.Value, error) {
	return reflect.ValueOf(s.val).Convert(t.Type()), nil
}

func (s *demoSeedc05_3x1Src) Watch(_ context.Context, t *Type, args WatchArgs) error {
	s.t, s.args = t, args
	return nil
}

// The defaults handed to Config contain a slice. After Config returns, the
// caller reuses its struct (scribbles on the slice's backing array). A later
// report from a watching source must still be stacked on the defaults as they
// were when Config was called, i.e. the view must equal what a fresh Config
// from the same defaults and the latest source values would build.
func TestDemoSeedDefaultsAliasedByMonitor(t *testing.T) {
	type cfg struct {
		Name  string
		Hosts []string
	}
	type ptrCfg struct {
		Name  *string
		Hosts []string
	}

	ctx, cancel := context.WithTimeout(context.Background(), 5*time.Second)
	defer cancel()

	mkDefaults := func() *cfg { return &cfg{Name: "dflt", Hosts: []string{"a", "b"}} }

	defaults := mkDefaults()
	src := &demoSeedc05_3x1Src{val: ptrCfg{}}
	d, err := Config(ctx, defaults, src)
	if err != nil {
		t.Fatalf("Config failed: %s", err)
	}

	// caller re-uses its struct after Config returned
	defaults.Hosts[0] = "scribbled"

	n := "reported"
	latest := ptrCfg{Name: &n}
	if err := src.args.BlockingReportNewValue(ctx, reflect.ValueOf(latest).Convert(src.t.Type())); err != nil {
		t.Fatalf("report failed: %s", err)
	}

	// fresh stack from the same defaults and the latest value of the source
	fd, err := Config(ctx, mkDefaults(), &demoSeedc05_3x1Src{val: latest})
	if err != nil {
		t.Fatalf("fresh Config failed: %s", err)
	}

	got, serial := d.ViewVersion()
	if serial.s != 1 {
		t.Errorf("unexpected serial %d; expected 1", serial.s)
	}
	if !reflect.DeepEqual(got, fd.View()) {
		t.Errorf("incremental re-stack %+v differs from fresh stack %+v", *got, *fd.View())
	}
}

// place in: . (repository root, package dials)
package dials

import (
	"context"
	"reflect"
	"testing"
	"time"
)

type demoSeedc05_5x3Cfg struct {
	A string
	B string
}

type demoSeedc05_5x3PtrCfg struct {
	A *string
	B *string
}

type demoSeedc05_5x3Src struct {
	val  interface{}
	t    *Type
	args WatchArgs
}

func (s *demoSeedc05_5x3Src) Value(_ context.Context, t *Type) (reflect.Value, error) {
	return reflect.ValueOf(s.val).Convert(t.Type()), nil
}

func (s *demoSeedc05_5x3Src) Watch(_ context.Context, t *Type, args WatchArgs) error {
	s.t, s.args = t, args
	return nil
}

func (s *demoSeedc05_5x3Src) report(ctx context.Context, v demoSeedc05_5x3PtrCfg) error {
	s.val = v
	return s.args.BlockingReportNewValue(ctx, reflect.ValueOf(v).Convert(s.t.Type()))
}

// Two watching sources. The one that is EARLIER in the source list stops
// watching (Done); the later one keeps reporting. Its reports must still be
// re-stacked: the view must equal a fresh Config over the latest values and
// each install must bump the serial by exactly one.
func TestDemoSeedLaterSourceReportsAfterEarlierDone(t *testing.T) {
	ctx, cancel := context.WithCancel(context.Background())
	defer cancel()

	sp := func(s string) *string { return &s }

	first := &demoSeedc05_5x3Src{val: demoSeedc05_5x3PtrCfg{A: sp("a0")}}
	second := &demoSeedc05_5x3Src{val: demoSeedc05_5x3PtrCfg{B: sp("b0")}}
	d, err := Config(ctx, &demoSeedc05_5x3Cfg{}, first, second)
	if err != nil {
		t.Fatalf("Config failed: %s", err)
	}

	// both are live: a report from each is installed
	repCtx, repCancel := context.WithTimeout(ctx, 2*time.Second)
	defer repCancel()
	if err := first.report(repCtx, demoSeedc05_5x3PtrCfg{A: sp("a1")}); err != nil {
		t.Fatalf("report from first source failed: %s", err)
	}
	if err := second.report(repCtx, demoSeedc05_5x3PtrCfg{B: sp("b1")}); err != nil {
		t.Fatalf("report from second source failed: %s", err)
	}

	// the first source is finished; the second one is still watching.
	first.args.Done(repCtx)

	if err := second.report(repCtx, demoSeedc05_5x3PtrCfg{B: sp("b2")}); err != nil {
		t.Errorf("report from still-watching second source was not installed: %s", err)
	}

	fd, err := Config(ctx, &demoSeedc05_5x3Cfg{},
		&demoSeedc05_5x3Src{val: first.val}, &demoSeedc05_5x3Src{val: second.val})
	if err != nil {
		t.Fatalf("fresh Config failed: %s", err)
	}

	got, serial := d.ViewVersion()
	if serial.s != 3 {
		t.Errorf("unexpected serial %d; expected 3", serial.s)
	}
	if !reflect.DeepEqual(got, fd.View()) {
		t.Errorf("incremental re-stack %+v differs from fresh stack %+v", *got, *fd.View())
	}
}

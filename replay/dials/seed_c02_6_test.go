// place in: . (repository root, package dials)
package dials

import (
	"context"
	"reflect"
	"strings"
	"testing"
)

// demoSeedC023HostSet is a struct implementing encoding.TextUnmarshaler that
// keeps its parsed form in exported reference-typed fields.
type demoSeedC023HostSet_r5c02_6 struct {
	Hosts  []string
	Weight map[string]int
}

func (h *demoSeedC023HostSet_r5c02_6) UnmarshalText(b []byte) error {
	h.Hosts = strings.Split(string(b), ",")
	h.Weight = map[string]int{}
	for _, x := range h.Hosts {
		h.Weight[x] = 1
	}
	return nil
}

type demoSeedC023Config_r5c02_6 struct {
	Name    string
	Allowed demoSeedC023HostSet_r5c02_6
	Denied  *demoSeedC023HostSet_r5c02_6
}

// demoSeedC023Source is a watching source whose value (built once, in the
// pointerified shape dials hands to sources) sets only the Allowed field.
type demoSeedC023Source_r5c02_6 struct {
	allowed *demoSeedC023HostSet_r5c02_6
	val     reflect.Value
	args    WatchArgs
}

func (s *demoSeedC023Source_r5c02_6) Value(_ context.Context, t *Type) (reflect.Value, error) {
	if !s.val.IsValid() {
		s.val = reflect.New(t.Type())
		s.val.Elem().FieldByName("Allowed").Set(reflect.ValueOf(s.allowed))
	}
	return s.val, nil
}

func (s *demoSeedC023Source_r5c02_6) Watch(_ context.Context, _ *Type, args WatchArgs) error {
	s.args = args
	return nil
}

func TestDemoSeedC023TextUnmarshalerStructIsolated_r5c02_6(t *testing.T) {
	ctx, cancel := context.WithCancel(context.Background())
	defer cancel()

	defaults := &demoSeedC023Config_r5c02_6{
		Name:   "default",
		Denied: &demoSeedC023HostSet_r5c02_6{Hosts: []string{"bad"}, Weight: map[string]int{"bad": 7}},
	}

	srcAllowed := &demoSeedC023HostSet_r5c02_6{}
	if err := srcAllowed.UnmarshalText([]byte("a,b,c")); err != nil {
		t.Fatal(err)
	}
	src := &demoSeedC023Source_r5c02_6{allowed: srcAllowed}

	d, err := Config(ctx, defaults, src)
	if err != nil {
		t.Fatalf("Config failed: %s", err)
	}
	v1 := d.View()
	if err := src.args.BlockingReportNewValue(ctx, src.val); err != nil {
		t.Fatalf("restack failed: %s", err)
	}
	v2 := d.View()
	if v1 == v2 {
		t.Fatal("no new version installed")
	}
	if !reflect.DeepEqual(v1, v2) {
		t.Fatalf("same inputs stacked differently: %+v vs %+v", v1, v2)
	}
	if !reflect.DeepEqual(v1.Allowed.Hosts, []string{"a", "b", "c"}) || v1.Denied.Hosts[0] != "bad" {
		t.Fatalf("unexpected stacked value: %+v / %+v", v1.Allowed, v1.Denied)
	}

	v1.Allowed.Hosts[0] = "mutated"
	v1.Allowed.Weight["a"] = 100
	v1.Denied.Hosts[0] = "mutated"
	v1.Denied.Weight["bad"] = 100

	if v2.Allowed.Hosts[0] != "a" || v2.Allowed.Weight["a"] != 1 {
		t.Errorf("two config versions share memory: v2.Allowed = %+v", v2.Allowed)
	}
	if srcAllowed.Hosts[0] != "a" || srcAllowed.Weight["a"] != 1 {
		t.Errorf("config version shares memory with the source's value: %+v", *srcAllowed)
	}
	if defaults.Denied.Hosts[0] != "bad" || defaults.Denied.Weight["bad"] != 7 {
		t.Errorf("config version shares memory with the defaults: %+v", *defaults.Denied)
	}
	if v2.Denied.Hosts[0] != "bad" {
		t.Errorf("two config versions share memory: v2.Denied = %+v", *v2.Denied)
	}
}

// place in: . (repository root, package dials_test)
package dials_test

import (
	"context"
	"testing"

	"github.com/vimeo/dials"
)

type demoSeed2Cfg struct {
	Name  string
	Hosts []string
}

func TestDemoSeedC02EmptySliceWithCapacityIsCopied(t *testing.T) {
	ctx := context.Background()

	// an empty default with room to grow (e.g. a reset, reused buffer)
	backing := []string{"orig0", "orig1", "orig2", "orig3"}
	dflt := &demoSeed2Cfg{Name: "dflt", Hosts: backing[:0]}

	d1, err := dials.Config(ctx, dflt)
	if err != nil {
		t.Fatalf("config 1: %s", err)
	}
	d2, err := dials.Config(ctx, dflt)
	if err != nil {
		t.Fatalf("config 2: %s", err)
	}
	c1, c2 := d1.View(), d2.View()
	if len(c1.Hosts) != 0 || len(c2.Hosts) != 0 {
		t.Fatalf("unexpected contents: %q %q", c1.Hosts, c2.Hosts)
	}

	// appending within capacity writes into the backing array
	c1.Hosts = append(c1.Hosts, "from-c1")
	if backing[0] != "orig0" {
		t.Errorf("caller's defaults were modified through the config: backing array now %q", backing)
	}
	c2.Hosts = append(c2.Hosts, "from-c2")
	if c1.Hosts[0] != "from-c1" {
		t.Errorf("two stackings of the same inputs share a backing array: c1.Hosts = %q after appending to c2.Hosts", c1.Hosts)
	}
	if got := dflt.Hosts[:1][0]; got != "orig0" {
		t.Errorf("defaults' slice backing array was overwritten: %q", got)
	}
}

// place in: . (repository root, next to dials.go)
package dials_test

import (
	"context"
	"reflect"
	"testing"

	"github.com/vimeo/dials"
)

// fnSource2 is a Source which allocates a value of the (pointerified) type it
// is handed and lets a callback populate the fields it wants to "set".
type fnSource2 func(v reflect.Value)

func (f fnSource2) Value(_ context.Context, t *dials.Type) (reflect.Value, error) {
	v := reflect.New(t.Type())
	f(v.Elem())
	return v, nil
}

// setNested allocates the pointerified nested struct in field `outer` (if
// necessary) and sets its leaf `leaf` to val.
func setNested(v reflect.Value, outer, leaf string, val interface{}) {
	o := v.FieldByName(outer)
	if o.IsNil() {
		o.Set(reflect.New(o.Type().Elem()))
	}
	l := o.Elem().FieldByName(leaf)
	p := reflect.New(l.Type().Elem())
	p.Elem().Set(reflect.ValueOf(val))
	l.Set(p)
}

// Structs behind a pointer merge field by field: a layer that only sets one
// leaf of the pointed-to struct must leave its siblings at the value of the
// previous layer / the default.
func TestDemoSeedPointerStructMergesFieldByField(t *testing.T) {
	type DB struct {
		Host string
		Port int
	}
	type cfg struct {
		Name string
		DB   *DB
	}

	setPort := fnSource2(func(v reflect.Value) { setNested(v, "DB", "Port", 6000) })
	setHost := fnSource2(func(v reflect.Value) { setNested(v, "DB", "Host", "db.internal") })

	// non-nil default, one layer sets only Port
	def := cfg{Name: "n", DB: &DB{Host: "localhost", Port: 5432}}
	d, err := dials.Config(context.Background(), &def, setPort)
	if err != nil {
		t.Fatalf("Config failed: %s", err)
	}
	if got, want := *d.View().DB, (DB{Host: "localhost", Port: 6000}); got != want {
		t.Errorf("default + {Port}: got %+v; want %+v", got, want)
	}

	// nil default, first layer sets Host, second sets Port
	def2 := cfg{Name: "n"}
	d2, err := dials.Config(context.Background(), &def2, setHost, setPort)
	if err != nil {
		t.Fatalf("Config failed: %s", err)
	}
	if got, want := *d2.View().DB, (DB{Host: "db.internal", Port: 6000}); got != want {
		t.Errorf("{Host} then {Port}: got %+v; want %+v", got, want)
	}

	// sanity: a single layer onto a nil default
	def3 := cfg{Name: "n"}
	d3, err := dials.Config(context.Background(), &def3, setPort)
	if err != nil {
		t.Fatalf("Config failed: %s", err)
	}
	if got, want := *d3.View().DB, (DB{Port: 6000}); got != want {
		t.Errorf("nil default + {Port}: got %+v; want %+v", got, want)
	}
}

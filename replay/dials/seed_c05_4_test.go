// place in: . (repository root, package dials)
package dials

import (
	"context"
	"fmt"
	"reflect"
	"testing"
	"time"
)

type demoSeedc05_4x2Cfg struct {
	Lo int
	Hi int
}

func (c *demoSeedc05_4x2Cfg) Verify() error {
	if c.Lo > c.Hi {
		return fmt.Errorf("Lo (%d) > Hi (%d)", c.Lo, c.Hi)
	}
	return nil
}

type demoSeedc05_4x2PtrCfg struct {
	Lo *int
	Hi *int
}

type demoSeedc05_4x2Src struct {
	val  interface{}
	t    *Type
	args WatchArgs
}

func (s *demoSeedc05_4x2Src) Value(_ context.Context, t *Type) (reflect.Value, error) {
	return reflect.ValueOf(s.val).Convert(t.Type()), nil
}

func (s *demoSeedc05_4x2Src) Watch(_ context.Context, t *Type, args WatchArgs) error {
	s.t, s.args = t, args
	return nil
}

func (s *demoSeedc05_4x2Src) report(ctx context.Context, v demoSeedc05_4x2PtrCfg) error {
	s.val = v
	return s.args.BlockingReportNewValue(ctx, reflect.ValueOf(v).Convert(s.t.Type()))
}

// Source A reports a value that does not verify against B's current value;
// B then reports a value under which the stack of the two *latest* reports
// verifies. The view must equal a fresh Config over the latest reports.
func TestDemoSeedRejectedValueStillLatest(t *testing.T) {
	ctx, cancel := context.WithTimeout(context.Background(), 5*time.Second)
	defer cancel()

	ip := func(i int) *int { return &i }

	a := &demoSeedc05_4x2Src{val: demoSeedc05_4x2PtrCfg{Lo: ip(1)}}
	b := &demoSeedc05_4x2Src{val: demoSeedc05_4x2PtrCfg{Hi: ip(5)}}
	d, err := Config(ctx, &demoSeedc05_4x2Cfg{}, a, b)
	if err != nil {
		t.Fatalf("Config failed: %s", err)
	}

	// Lo=10 > Hi=5: must be rejected, view stays at the last verified one.
	if err := a.report(ctx, demoSeedc05_4x2PtrCfg{Lo: ip(10)}); err == nil {
		t.Fatalf("expected verification failure for Lo=10,Hi=5")
	}
	if v, s := d.ViewVersion(); *v != (demoSeedc05_4x2Cfg{Lo: 1, Hi: 5}) || s.s != 0 {
		t.Fatalf("unexpected view after rejected report: %+v serial %d", *v, s.s)
	}

	// Hi=20: latest reports are Lo=10 (A), Hi=20 (B), which verifies.
	if err := b.report(ctx, demoSeedc05_4x2PtrCfg{Hi: ip(20)}); err != nil {
		t.Fatalf("unexpected failure for B's report: %s", err)
	}

	fd, err := Config(ctx, &demoSeedc05_4x2Cfg{},
		&demoSeedc05_4x2Src{val: a.val}, &demoSeedc05_4x2Src{val: b.val})
	if err != nil {
		t.Fatalf("fresh Config failed: %s", err)
	}

	got, serial := d.ViewVersion()
	if serial.s != 1 {
		t.Errorf("unexpected serial %d; expected 1", serial.s)
	}
	if !reflect.DeepEqual(got, fd.View()) {
		t.Errorf("incremental re-stack %+v differs from fresh stack %+v", *got, *fd.View())
	}
}

// place in: ./ (worktree root, package dials)
package dials

import (
	"context"
	"errors"
	"reflect"
	"testing"
	"time"
)

type seedDemo1Limits struct {
	Max int
}

// seedDemo1Cfg has a default that is a non-nil pointer to a struct.
type seedDemo1Cfg struct {
	Name   string
	Limits *seedDemo1Limits
}

var errSeedDemo1 = errors.New("max too large")

func (c seedDemo1Cfg) Verify() error {
	if c.Limits != nil && c.Limits.Max > 100 {
		return errSeedDemo1
	}
	return nil
}

type seedDemo1Src struct {
	typ  *Type
	args WatchArgs
}

func (s *seedDemo1Src) Value(_ context.Context, t *Type) (reflect.Value, error) {
	// nothing set initially
	return reflect.New(t.Type()).Elem(), nil
}

func (s *seedDemo1Src) Watch(_ context.Context, t *Type, args WatchArgs) error {
	s.typ = t
	s.args = args
	return nil
}

// val builds a value of the pointerified type with Limits.Max set to max.
func (s *seedDemo1Src) val(max int) reflect.Value {
	v := reflect.New(s.typ.Type()).Elem()
	lim := v.FieldByName("Limits")
	lim.Set(reflect.New(lim.Type().Elem()))
	maxFld := lim.Elem().FieldByName("Max")
	if maxFld.Kind() == reflect.Ptr {
		maxFld.Set(reflect.New(maxFld.Type().Elem()))
		maxFld.Elem().SetInt(int64(max))
	} else {
		maxFld.SetInt(int64(max))
	}
	return v
}

func TestDemoSeedRejectedUpdateLeavesViewUntouched(t *testing.T) {
	ctx, cancel := context.WithTimeout(context.Background(), 5*time.Second)
	defer cancel()

	type werr struct {
		err      error
		old, new *seedDemo1Cfg
		oldMax   int
	}
	werrs := make(chan werr, 4)

	src := &seedDemo1Src{}
	base := seedDemo1Cfg{Name: "n", Limits: &seedDemo1Limits{Max: 10}}
	d, err := Params[seedDemo1Cfg]{
		OnWatchedError: func(_ context.Context, err error, o, n *seedDemo1Cfg) {
			werrs <- werr{err: err, old: o, new: n, oldMax: o.Limits.Max}
		},
	}.Config(ctx, &base, src)
	if err != nil {
		t.Fatalf("config failed: %s", err)
	}

	before, serBefore := d.ViewVersion()
	if before.Limits.Max != 10 {
		t.Fatalf("unexpected initial Max: %d", before.Limits.Max)
	}

	// a valid update first
	if err := src.args.BlockingReportNewValue(ctx, src.val(50)); err != nil {
		t.Fatalf("valid update rejected: %s", err)
	}
	good, serGood := d.ViewVersion()
	if good.Limits.Max != 50 {
		t.Fatalf("unexpected Max after valid update: %d", good.Limits.Max)
	}
	if before.Limits.Max != 10 {
		t.Errorf("a previously handed-out config changed under the reader: Max = %d; expected 10", before.Limits.Max)
	}
	if serGood == serBefore {
		t.Errorf("serial did not change for a valid update")
	}

	// now an update that does not verify
	repErr := src.args.BlockingReportNewValue(ctx, src.val(500))
	if !errors.Is(repErr, errSeedDemo1) {
		t.Fatalf("expected verification error from blocking report; got %v", repErr)
	}
	after, serAfter := d.ViewVersion()
	if after != good || serAfter != serGood {
		t.Errorf("view/version changed by a rejected update")
	}
	if after.Limits.Max != 50 {
		t.Errorf("rejected update is visible through View(): Limits.Max = %d; expected 50", after.Limits.Max)
	}
	if vErr := after.Verify(); vErr != nil {
		t.Errorf("the config visible through View() does not verify: %s", vErr)
	}
	select {
	case we := <-werrs:
		if we.oldMax != 50 {
			t.Errorf("OnWatchedError's current config carries the rejected value: Max = %d; expected 50", we.oldMax)
		}
	case <-ctx.Done():
		t.Errorf("no OnWatchedError call")
	}
}

// place in: . (worktree root, package dials)
package dials

import (
	"context"
	"reflect"
	"testing"
	"time"
)

type seedGraphNode struct {
	Name string
	Next map[string]*seedGraphNode
}

type seedGraphCfg struct {
	Nodes map[string]*seedGraphNode
	Order []*seedGraphNode
	Label string
}

// seedByValueSource hands its (pointerified) value over by value, as a
// struct, and keeps hold of the reference graph it built.
type seedByValueSource struct {
	nodes map[string]*seedGraphNode
	order []*seedGraphNode
}

func (s *seedByValueSource) Value(_ context.Context, t *Type) (reflect.Value, error) {
	v := reflect.New(t.Type()).Elem()
	v.FieldByName("Nodes").Set(reflect.ValueOf(s.nodes))
	v.FieldByName("Order").Set(reflect.ValueOf(s.order))
	return v, nil // a struct, not a pointer to one
}

// seedLabelWatcher is a watching source that only ever sets Label.
type seedLabelWatcher struct {
	t    *Type
	args WatchArgs
}

func (s *seedLabelWatcher) Value(_ context.Context, t *Type) (reflect.Value, error) {
	return reflect.New(t.Type()), nil
}

func (s *seedLabelWatcher) Watch(_ context.Context, t *Type, args WatchArgs) error {
	s.t, s.args = t, args
	return nil
}

func (s *seedLabelWatcher) push(ctx context.Context, label string) error {
	v := reflect.New(s.t.Type())
	v.Elem().FieldByName("Label").Set(reflect.ValueOf(&label))
	return s.args.ReportNewValue(ctx, v)
}

// TestDemoSeedSourceGraphIsCopied: a cyclic, shared graph supplied by a
// source must arrive in the config deeply equal, with its sharing intact, and
// fresh: neither Config's result nor a re-stacked result may alias the
// source's own objects (or one another).
func TestDemoSeedSourceGraphIsCopied(t *testing.T) {
	ctx, cancel := context.WithCancel(context.Background())
	defer cancel()

	a := &seedGraphNode{Name: "a"}
	b := &seedGraphNode{Name: "b"}
	a.Next = map[string]*seedGraphNode{"self": a, "b": b}
	b.Next = a.Next // shared map, and a cycle a -> b -> a
	src := &seedByValueSource{
		nodes: map[string]*seedGraphNode{"a": a, "b": b},
		order: []*seedGraphNode{b, a, b},
	}
	w := &seedLabelWatcher{}

	d, err := Config(ctx, &seedGraphCfg{Label: "default"}, src, w)
	if err != nil {
		t.Fatalf("Config failed: %s", err)
	}
	mp := func(m interface{}) uintptr { return reflect.ValueOf(m).Pointer() }

	check := func(what string, got *seedGraphCfg) {
		t.Helper()
		want := &seedGraphCfg{Nodes: src.nodes, Order: src.order, Label: got.Label}
		if !reflect.DeepEqual(want, got) {
			t.Errorf("%s: not deeply equal to the supplied values", what)
		}
		ga, gb := got.Nodes["a"], got.Nodes["b"]
		// sharing / cycles
		if got.Order[0] != gb || got.Order[1] != ga || got.Order[2] != gb {
			t.Errorf("%s: Order does not reference the nodes of Nodes", what)
		}
		if ga.Next["self"] != ga || ga.Next["b"] != gb || mp(ga.Next) != mp(gb.Next) {
			t.Errorf("%s: cycle or shared map lost", what)
		}
		// freshness
		if mp(got.Nodes) == mp(src.nodes) {
			t.Errorf("%s: Nodes is the source's own map (not fresh)", what)
		}
		if ga == a || gb == b {
			t.Errorf("%s: Nodes[a]/Nodes[b] are the source's own nodes (not fresh)", what)
		}
		if len(got.Order) > 0 && &got.Order[0] == &src.order[0] {
			t.Errorf("%s: Order shares the source's backing array (not fresh)", what)
		}
	}

	first := d.View()
	check("Config", first)

	// re-stack: the watching source reports a new value; the by-value
	// source's retained value is stacked again.
	if err := w.push(ctx, "pushed"); err != nil {
		t.Fatalf("push failed: %s", err)
	}
	var second *seedGraphCfg
	select {
	case second = <-d.Events():
	case <-time.After(10 * time.Second):
		t.Fatalf("no re-stacked config")
	}
	if second.Label != "pushed" {
		t.Errorf("unexpected label %q", second.Label)
	}
	check("re-stack", second)
	if mp(first.Nodes) == mp(second.Nodes) || first.Nodes["a"] == second.Nodes["a"] {
		t.Errorf("re-stacked config shares its graph with the previous config")
	}
	// a consumer editing the new config must not change the source's state
	second.Nodes["a"].Name = "edited"
	delete(second.Nodes, "b")
	if a.Name != "a" || len(src.nodes) != 2 || first.Nodes["a"].Name != "a" {
		t.Errorf("editing the re-stacked config wrote through: source a.Name=%q len(nodes)=%d, previous config a.Name=%q",
			a.Name, len(src.nodes), first.Nodes["a"].Name)
	}
}

// place in: ./
package dials

import (
	"context"
	"reflect"
	"testing"
	"time"
)

// seedC041Config is the config type used by this demo.
type seedC041Config_r7c04_6 struct {
	Name  string
	Limit *int
}

// seedC041Watcher is a watching source that starts out blank and lets the
// test push arbitrary values through the WatchArgs it was handed.
type seedC041Watcher_r7c04_6 struct {
	args WatchArgs
}

func (s *seedC041Watcher_r7c04_6) Value(_ context.Context, t *Type) (reflect.Value, error) {
	return reflect.New(t.Type()), nil
}

func (s *seedC041Watcher_r7c04_6) Watch(_ context.Context, _ *Type, args WatchArgs) error {
	s.args = args
	return nil
}

type seedC041ErrCall_r7c04_6 struct {
	err      error
	old, new *seedC041Config_r7c04_6
}

// An update that cannot be stacked (here: the second field has a type that
// cannot be overlaid) must be reported to OnWatchedError with the current
// config and a nil newConfig ("newConfig will be nil for errors that prevent
// stacking"), and it must not change view or version.
func TestDemoSeedC04StackFailureReportsNilNewConfig_r7c04_6(t *testing.T) {
	ctx, cancel := context.WithTimeout(context.Background(), 15*time.Second)
	defer cancel()

	calls := make(chan seedC041ErrCall_r7c04_6, 4)
	w := &seedC041Watcher_r7c04_6{}
	base := seedC041Config_r7c04_6{Name: "default"}
	d, err := Params[seedC041Config_r7c04_6]{
		OnWatchedError: func(_ context.Context, err error, oc, nc *seedC041Config_r7c04_6) {
			calls <- seedC041ErrCall_r7c04_6{err: err, old: oc, new: nc}
		},
	}.Config(ctx, &base, w)
	if err != nil {
		t.Fatalf("Config failed: %s", err)
	}
	before, beforeSerial := d.ViewVersion()

	// First field overlays fine, the second one cannot be stacked:
	// a *string cannot be overlaid onto a (nil) *int.
	name, limit := "partially-applied", "not-a-number"
	bad := struct {
		Name  *string
		Limit *string
	}{Name: &name, Limit: &limit}

	repErr := w.args.BlockingReportNewValue(ctx, reflect.ValueOf(bad))
	if repErr == nil {
		t.Fatalf("blocking report of an unstackable value returned nil")
	}

	select {
	case c := <-calls:
		if c.err == nil {
			t.Errorf("OnWatchedError got a nil error")
		}
		if c.old != before {
			t.Errorf("OnWatchedError oldConfig = %p (%+v); want the current config %p", c.old, c.old, before)
		}
		if c.new != nil {
			t.Errorf("OnWatchedError got a non-nil newConfig for an error that prevented stacking: %+v (err: %s)",
				*c.new, c.err)
		}
	case <-ctx.Done():
		t.Fatalf("timed out waiting for OnWatchedError")
	}

	after, afterSerial := d.ViewVersion()
	if after != before || afterSerial != beforeSerial {
		t.Errorf("view/version changed by a rejected update: %+v -> %+v", before, after)
	}
	if after.Name != "default" {
		t.Errorf("unexpected Name in current config: %q", after.Name)
	}
}

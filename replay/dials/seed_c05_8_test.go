// place in: ./
package dials

import (
	"context"
	"reflect"
	"testing"
	"time"
)

type seedC05k3Cfg_r7c05_8 struct {
	Foo string
	Bar string
	Baz int
}

type seedC05k3Ptrified_r7c05_8 struct {
	Foo *string
	Bar *string
	Baz *int
}

// seedC05k3Static is a source that never changes (no Watch method).
type seedC05k3Static_r7c05_8 struct {
	val seedC05k3Ptrified_r7c05_8
}

func (s *seedC05k3Static_r7c05_8) Value(_ context.Context, t *Type) (reflect.Value, error) {
	return reflect.ValueOf(s.val).Convert(t.Type()), nil
}

// seedC05k3Watcher is a watching source which remembers what it reported last.
type seedC05k3Watcher_r7c05_8 struct {
	last seedC05k3Ptrified_r7c05_8
	t    *Type
	args WatchArgs
}

func (w *seedC05k3Watcher_r7c05_8) Value(_ context.Context, t *Type) (reflect.Value, error) {
	return reflect.ValueOf(w.last).Convert(t.Type()), nil
}

func (w *seedC05k3Watcher_r7c05_8) Watch(_ context.Context, t *Type, args WatchArgs) error {
	w.t = t
	w.args = args
	return nil
}

func (w *seedC05k3Watcher_r7c05_8) report(ctx context.Context, v seedC05k3Ptrified_r7c05_8) error {
	w.last = v
	return w.args.BlockingReportNewValue(ctx, reflect.ValueOf(v).Convert(w.t.Type()))
}

func seedC05k3Str_r7c05_8(s string) *string { return &s }
func seedC05k3Int_r7c05_8(i int) *int       { return &i }

// A watching source (think: config file) that is listed BEFORE a
// non-watching one (think: flags) must keep being overridden by it after
// every re-stack, exactly like in a fresh Config() call.
func TestDemoSeedC05k3RestackKeepsPrecedenceOfLaterStaticSource_r7c05_8(t *testing.T) {
	ctx, cancel := context.WithTimeout(context.Background(), 15*time.Second)
	defer cancel()

	defaults := func() *seedC05k3Cfg_r7c05_8 {
		return &seedC05k3Cfg_r7c05_8{Foo: "default-foo", Bar: "default-bar", Baz: 1}
	}

	lowStatic := seedC05k3Ptrified_r7c05_8{Baz: seedC05k3Int_r7c05_8(2)}
	highStatic := seedC05k3Ptrified_r7c05_8{Foo: seedC05k3Str_r7c05_8("flag-foo")}

	w := &seedC05k3Watcher_r7c05_8{last: seedC05k3Ptrified_r7c05_8{Foo: seedC05k3Str_r7c05_8("file-foo-0"), Bar: seedC05k3Str_r7c05_8("file-bar-0")}}
	d, err := Config(ctx, defaults(), &seedC05k3Static_r7c05_8{val: lowStatic}, w, &seedC05k3Static_r7c05_8{val: highStatic})
	if err != nil {
		t.Fatalf("Config failed: %s", err)
	}
	if got := d.View(); got.Foo != "flag-foo" || got.Bar != "file-bar-0" || got.Baz != 2 {
		t.Fatalf("unexpected initial view: %+v", *got)
	}

	reports := []seedC05k3Ptrified_r7c05_8{
		{Foo: seedC05k3Str_r7c05_8("file-foo-1"), Bar: seedC05k3Str_r7c05_8("file-bar-1")},
		{Bar: seedC05k3Str_r7c05_8("file-bar-2")},
		{Foo: seedC05k3Str_r7c05_8("file-foo-3"), Baz: seedC05k3Int_r7c05_8(30)},
		{},
	}
	for i, r := range reports {
		if repErr := w.report(ctx, r); repErr != nil {
			t.Fatalf("report %d failed: %s", i, repErr)
		}
		// the oracle: a fresh stack from the same defaults and every
		// source's most recently reported value
		fresh, freshErr := Config(ctx, defaults(),
			&seedC05k3Static_r7c05_8{val: lowStatic},
			&seedC05k3Static_r7c05_8{val: r},
			&seedC05k3Static_r7c05_8{val: highStatic})
		if freshErr != nil {
			t.Fatalf("fresh Config %d failed: %s", i, freshErr)
		}
		got, exp := d.View(), fresh.View()
		if !reflect.DeepEqual(got, exp) {
			t.Errorf("after report %d the view is %+v; a fresh stack gives %+v", i, *got, *exp)
		}
	}
}

// place in: ./ (worktree root, package dials)
package dials

import (
	"context"
	"reflect"
	"strings"
	"testing"
	"time"
)

type demoSeedc06_4x2Cfg struct {
	Foo string
}

type demoSeedc06_4x2Src struct {
	t    *Type
	args WatchArgs
}

func (s *demoSeedc06_4x2Src) Value(_ context.Context, t *Type) (reflect.Value, error) {
	return reflect.New(t.Type()).Elem(), nil
}

func (s *demoSeedc06_4x2Src) Watch(_ context.Context, t *Type, args WatchArgs) error {
	s.t = t
	s.args = args
	return nil
}

func (s *demoSeedc06_4x2Src) send(ctx context.Context, foo string) error {
	v := reflect.New(s.t.Type()).Elem()
	v.Field(0).Set(reflect.ValueOf(&foo))
	return s.args.ReportNewValue(ctx, v)
}

// Callbacks must run in installation order, also after one in the middle of
// the list has been unregistered.
func TestDemoSeedCallbackOrderAfterMiddleUnregister(t *testing.T) {
	ctx, cancel := context.WithTimeout(context.Background(), 10*time.Second)
	defer cancel()

	src := &demoSeedc06_4x2Src{}
	announced := make(chan struct{}, 4)
	p := Params[demoSeedc06_4x2Cfg]{
		OnNewConfig: func(context.Context, *demoSeedc06_4x2Cfg, *demoSeedc06_4x2Cfg) { announced <- struct{}{} },
	}
	d, err := p.Config(ctx, &demoSeedc06_4x2Cfg{Foo: "initial"}, src)
	if err != nil {
		t.Fatalf("config failed: %s", err)
	}
	_, serial := d.ViewVersion()

	// only ever touched by the (single) callback goroutine until the
	// last unregister func has returned.
	order := []string{}
	names := []string{"A", "B", "C", "D", "E"}
	unregs := map[string]UnregisterCBFunc{}
	for _, name := range names {
		name := name
		unregs[name] = d.RegisterCallback(ctx, serial, func(_ context.Context, o, n *demoSeedc06_4x2Cfg) {
			order = append(order, name+":"+n.Foo)
		})
		if unregs[name] == nil {
			t.Fatalf("failed to register %s", name)
		}
	}

	// remove one from the middle
	if !unregs["B"](ctx) {
		t.Fatal("failed to unregister B")
	}

	if sendErr := src.send(ctx, "v1"); sendErr != nil {
		t.Fatalf("send failed: %s", sendErr)
	}
	// wait for the callback goroutine to start on the new-config event (the
	// global callback runs first); the unregister events below are queued
	// behind it, so once they return every callback has run.
	select {
	case <-announced:
	case <-ctx.Done():
		t.Fatal("timeout waiting for the new-config event")
	}
	for _, name := range []string{"A", "C", "D", "E"} {
		if !unregs[name](ctx) {
			t.Fatalf("failed to unregister %s", name)
		}
	}

	got := strings.Join(order, " ")
	const want = "A:v1 C:v1 D:v1 E:v1"
	if got != want {
		t.Errorf("callbacks ran out of installation order:\n got: %s\nwant: %s", got, want)
	}
}

// place in: ./
package dials

import (
	"context"
	"errors"
	"reflect"
	"sync/atomic"
	"testing"
	"time"
)

type seedC062Cfg_r7c06_7 struct {
	Gen int
}

type seedC062Ptrified_r7c06_7 struct {
	Gen *int
}

type seedC062Src_r7c06_7 struct {
	typ  *Type
	args WatchArgs
}

func (s *seedC062Src_r7c06_7) Value(_ context.Context, t *Type) (reflect.Value, error) {
	return reflect.ValueOf(seedC062Ptrified_r7c06_7{}).Convert(t.Type()), nil
}

func (s *seedC062Src_r7c06_7) Watch(_ context.Context, t *Type, args WatchArgs) error {
	s.typ = t
	s.args = args
	return nil
}

// seedC062Install installs a new version and only returns once the new-config
// event for it has been queued for the callback goroutine.
func (s *seedC062Src_r7c06_7) seedC062Install(ctx context.Context, t *testing.T, gen int) {
	t.Helper()
	v := reflect.ValueOf(seedC062Ptrified_r7c06_7{Gen: &gen}).Convert(s.typ.Type())
	if err := s.args.BlockingReportNewValue(ctx, v); err != nil {
		t.Fatalf("failed to install gen %d: %s", gen, err)
	}
	// the monitor pokes the "installed" channel before it queues the new-config
	// event, so do one more round trip through the monitor: it only picks this
	// report up once it is back in its loop (no OnWatchedError is set, so the
	// resulting event is ignored by the callback goroutine).
	if err := s.args.ReportError(ctx, errors.New("seedC062: sync")); err != nil {
		t.Fatalf("failed to sync with monitor: %s", err)
	}
}

// TestSeedC06NoCallbackAfterUnregisterReturnedTrue: a first unregister call
// gives up (its context expires while the callback goroutine is busy, so it
// returns false); a second call must only return true once the handle really
// is gone, i.e. the callback must never run after that call returned true.
func TestDemoSeedC06NoCallbackAfterUnregisterReturnedTrue_r7c06_7(t *testing.T) {
	ctx, cancel := context.WithTimeout(context.Background(), 15*time.Second)
	defer cancel()

	src := &seedC062Src_r7c06_7{}
	base := seedC062Cfg_r7c06_7{}
	d, err := Config(ctx, &base, src)
	if err != nil {
		t.Fatalf("Config failed: %s", err)
	}

	var unregTrue int32  // set once an unregister call has returned true
	var callsAfter int32 // callback invocations after unregister returned true
	var calls int32      // all invocations
	started := make(chan struct{}, 8)
	release := make(chan struct{})

	_, serial := d.ViewVersion()
	unreg := d.RegisterCallback(ctx, serial, func(ctx context.Context, oldCfg, newCfg *seedC062Cfg_r7c06_7) {
		if atomic.LoadInt32(&unregTrue) != 0 {
			atomic.AddInt32(&callsAfter, 1)
		}
		if atomic.AddInt32(&calls, 1) == 1 {
			// first call: hold up the callback goroutine until released.
			started <- struct{}{}
			select {
			case <-release:
			case <-ctx.Done():
			}
		}
	})
	if unreg == nil {
		t.Fatal("nil unregister func")
	}

	// version 1: the callback starts and blocks.
	src.seedC062Install(ctx, t, 1)
	select {
	case <-started:
	case <-ctx.Done():
		t.Fatal("timed out waiting for the first callback")
	}
	// version 2: its event is queued behind the blocked callback.
	src.seedC062Install(ctx, t, 2)

	// first unregister attempt: gives up after 100ms, since the callback
	// goroutine is blocked.
	shortCtx, shortCancel := context.WithTimeout(ctx, 100*time.Millisecond)
	if unreg(shortCtx) {
		t.Fatal("unregister returned true although the callback goroutine is blocked")
	}
	shortCancel()

	// second attempt, with a generous deadline.
	unregDone := make(chan bool, 1)
	go func() {
		ok := unreg(ctx)
		if ok {
			atomic.StoreInt32(&unregTrue, 1)
		}
		unregDone <- ok
	}()

	// give the second attempt some time, then let the callback goroutine go on:
	// it still has the event for version 2 to deliver before it gets to the
	// unregister events.
	time.Sleep(300 * time.Millisecond)
	close(release)

	select {
	case ok := <-unregDone:
		if !ok {
			t.Fatal("second unregister call failed")
		}
	case <-ctx.Done():
		t.Fatal("timed out waiting for the second unregister call")
	}

	// one more version, and flush the callback goroutine with a
	// register/unregister pair.
	src.seedC062Install(ctx, t, 3)
	if flush := d.RegisterCallback(ctx, CfgSerial[seedC062Cfg_r7c06_7]{}, func(context.Context, *seedC062Cfg_r7c06_7, *seedC062Cfg_r7c06_7) {}); flush == nil || !flush(ctx) {
		t.Fatal("flush failed")
	}

	if n := atomic.LoadInt32(&callsAfter); n != 0 {
		t.Errorf("callback invoked %d time(s) after its unregister func had returned true", n)
	}
	if n := atomic.LoadInt32(&calls); n != 2 {
		t.Errorf("expected 2 calls (versions 1 and 2) got %d", n)
	}
}

// place in: ./ (repository root, package dials)
package dials

import (
	"context"
	"errors"
	"reflect"
	"sync/atomic"
	"testing"
	"time"
)

var errDemoSeed1Invalid = errors.New("demoseed1: invalid config")

var demoSeed1VerifyCalls int32

type demoSeed1Cfg struct {
	Valid bool
	Foo   string
}

func (c demoSeed1Cfg) Verify() error {
	atomic.AddInt32(&demoSeed1VerifyCalls, 1)
	if c.Valid {
		return nil
	}
	return errDemoSeed1Invalid
}

type demoSeed1PtrCfg struct {
	Valid *bool
	Foo   *string
}

type demoSeed1Src struct {
	out  interface{}
	t    *Type
	args WatchArgs
}

func (s *demoSeed1Src) Value(_ context.Context, t *Type) (reflect.Value, error) {
	return reflect.ValueOf(s.out).Convert(t.Type()), nil
}

type demoSeed1WatchSrc struct{ demoSeed1Src }

func (s *demoSeed1WatchSrc) Watch(_ context.Context, t *Type, args WatchArgs) error {
	s.t, s.args = t, args
	return nil
}

// Both SkipInitialVerification and DelayInitialVerification set, no watching
// sources: EnableVerification must verify the installed (invalid) config and
// return the error.
func TestDemoSeedC09_1_NoWatch(t *testing.T) {
	ctx, cancel := context.WithCancel(context.Background())
	defer cancel()

	before := atomic.LoadInt32(&demoSeed1VerifyCalls)
	base := demoSeed1Cfg{Valid: false, Foo: "foo"}
	d, err := Params[demoSeed1Cfg]{
		SkipInitialVerification:  true,
		DelayInitialVerification: true,
	}.Config(ctx, &base, &demoSeed1Src{out: demoSeed1PtrCfg{}})
	if err != nil {
		t.Fatalf("Config failed: %s", err)
	}
	if n := atomic.LoadInt32(&demoSeed1VerifyCalls) - before; n != 0 {
		t.Fatalf("Verify called %d times before EnableVerification", n)
	}
	c, tok, vfErr := d.EnableVerification(ctx)
	if !errors.Is(vfErr, errDemoSeed1Invalid) {
		t.Errorf("EnableVerification on an invalid config returned (%+v, %+v, %v); expected error %v",
			c, tok, vfErr, errDemoSeed1Invalid)
	}
	if n := atomic.LoadInt32(&demoSeed1VerifyCalls) - before; n != 1 {
		t.Errorf("Verify called %d times by EnableVerification; expected exactly 1", n)
	}
}

// Same flags with a watching source: after a successful EnableVerification
// every re-stack must be verified, so an invalid update must be rejected.
func TestDemoSeedC09_1_Watch(t *testing.T) {
	ctx, cancel := context.WithCancel(context.Background())
	defer cancel()

	errCh := make(chan error, 4)
	base := demoSeed1Cfg{Valid: true, Foo: "foo"}
	w := demoSeed1WatchSrc{demoSeed1Src{out: demoSeed1PtrCfg{}}}
	d, err := Params[demoSeed1Cfg]{
		SkipInitialVerification:  true,
		DelayInitialVerification: true,
		OnWatchedError: func(_ context.Context, err error, _, _ *demoSeed1Cfg) {
			errCh <- err
		},
	}.Config(ctx, &base, &w)
	if err != nil {
		t.Fatalf("Config failed: %s", err)
	}
	if _, _, vfErr := d.EnableVerification(ctx); vfErr != nil {
		t.Fatalf("EnableVerification failed on a valid config: %s", vfErr)
	}

	falseVal, bad := false, "bad"
	if sendErr := w.args.BlockingReportNewValue(ctx,
		reflect.ValueOf(demoSeed1PtrCfg{Valid: &falseVal, Foo: &bad}).Convert(w.t.Type())); !errors.Is(sendErr, errDemoSeed1Invalid) {
		t.Errorf("invalid update after EnableVerification was not rejected: err = %v", sendErr)
	}
	if v := d.View(); !v.Valid || v.Foo != "foo" {
		t.Errorf("invalid config installed after verification was enabled: %+v", v)
	}
	select {
	case e := <-errCh:
		if !errors.Is(e, errDemoSeed1Invalid) {
			t.Errorf("unexpected error delivered: %s", e)
		}
	case <-time.After(2 * time.Second):
		t.Errorf("OnWatchedError never called for the invalid update")
	}
}

// place in: ./
package dials

import (
	"context"
	"errors"
	"reflect"
	"testing"
	"time"
)

// seedC092Cfg deliberately has NO Verify() method.
type seedC092Cfg_r6c09_6 struct {
	Foo string
}

type seedC092Ptrified_r6c09_6 struct {
	Foo *string
}

type seedC092WatchSrc_r6c09_6 struct {
	t    *Type
	args WatchArgs
}

func (s *seedC092WatchSrc_r6c09_6) Value(_ context.Context, t *Type) (reflect.Value, error) {
	return reflect.ValueOf(seedC092Ptrified_r6c09_6{}).Convert(t.t), nil
}

func (s *seedC092WatchSrc_r6c09_6) Watch(_ context.Context, t *Type, args WatchArgs) error {
	s.t = t
	s.args = args
	return nil
}

func (s *seedC092WatchSrc_r6c09_6) val(foo string) reflect.Value {
	return reflect.ValueOf(seedC092Ptrified_r6c09_6{Foo: &foo}).Convert(s.t.t)
}

func seedC092Await_r6c09_6(ctx context.Context, t *testing.T, ch <-chan *seedC092Cfg_r6c09_6, wantFoo string) {
	t.Helper()
	select {
	case nc := <-ch:
		if nc.Foo != wantFoo {
			t.Fatalf("registered callback got %+v; want Foo=%q", nc, wantFoo)
		}
	case <-ctx.Done():
		t.Fatalf("timed out waiting for registered callback with Foo=%q", wantFoo)
	}
}

// With DelayInitialVerification and CallGlobalCallbacksAfterVerificationEnabled
// the global callbacks are held back only until EnableVerification succeeds.
// That must hold for config types without a Verify() method as well: a
// successful EnableVerification ends the delay.
func TestDemoSeedC09SuppressionEndsAfterEnableForUnverifiedConfigType_r6c09_6(t *testing.T) {
	ctx, cancel := context.WithTimeout(context.Background(), 10*time.Second)
	defer cancel()

	globalNew := make(chan *seedC092Cfg_r6c09_6, 16)
	globalErr := make(chan error, 16)
	src := seedC092WatchSrc_r6c09_6{}
	base := seedC092Cfg_r6c09_6{Foo: "base"}
	d, cfgErr := Params[seedC092Cfg_r6c09_6]{
		OnNewConfig: func(_ context.Context, _, nc *seedC092Cfg_r6c09_6) {
			globalNew <- nc
		},
		OnWatchedError: func(_ context.Context, err error, _, _ *seedC092Cfg_r6c09_6) {
			globalErr <- err
		},
		DelayInitialVerification:                    true,
		CallGlobalCallbacksAfterVerificationEnabled: true,
	}.Config(ctx, &base, &src)
	if cfgErr != nil {
		t.Fatalf("Config failed: %s", cfgErr)
	}

	registered := make(chan *seedC092Cfg_r6c09_6, 16)
	_, serial0 := d.ViewVersion()
	if unreg := d.RegisterCallback(ctx, serial0, func(_ context.Context, _, nc *seedC092Cfg_r6c09_6) {
		registered <- nc
	}); unreg == nil {
		t.Fatalf("RegisterCallback failed")
	}

	// --- while the delay is in force: global callbacks are withheld ---
	srcErr := errors.New("seedC092: source trouble")
	if err := src.args.ReportError(ctx, srcErr); err != nil {
		t.Fatalf("ReportError: %s", err)
	}
	if err := src.args.ReportNewValue(ctx, src.val("u1")); err != nil {
		t.Fatalf("ReportNewValue: %s", err)
	}
	seedC092Await_r6c09_6(ctx, t, registered, "u1")
	select {
	case nc := <-globalNew:
		t.Fatalf("OnNewConfig called before EnableVerification: %+v", nc)
	case e := <-globalErr:
		t.Fatalf("OnWatchedError called before EnableVerification: %s", e)
	default:
	}

	// --- switch on ---
	cfg, tok, enErr := d.EnableVerification(ctx)
	if enErr != nil {
		t.Fatalf("EnableVerification failed: %s", enErr)
	}
	if cfg == nil || cfg.Foo != "u1" || cfg != d.View() {
		t.Fatalf("EnableVerification returned %+v; want the installed config %+v", cfg, d.View())
	}
	if _, curTok := d.ViewVersion(); tok != curTok {
		t.Fatalf("EnableVerification returned token %+v; want %+v", tok, curTok)
	}

	// --- after a successful enable: global callbacks are delivered ---
	if err := src.args.ReportNewValue(ctx, src.val("u2")); err != nil {
		t.Fatalf("ReportNewValue: %s", err)
	}
	// The global callback runs before the registered ones for the same
	// event, so once the registered one ran the global one must have run.
	seedC092Await_r6c09_6(ctx, t, registered, "u2")
	select {
	case nc := <-globalNew:
		if nc.Foo != "u2" {
			t.Errorf("OnNewConfig got %+v; want Foo=u2", nc)
		}
	default:
		t.Errorf("OnNewConfig was not called for an update after a successful EnableVerification")
	}

	if err := src.args.ReportError(ctx, srcErr); err != nil {
		t.Fatalf("ReportError: %s", err)
	}
	// fence: events are handled in order
	if err := src.args.ReportNewValue(ctx, src.val("u3")); err != nil {
		t.Fatalf("ReportNewValue: %s", err)
	}
	seedC092Await_r6c09_6(ctx, t, registered, "u3")
	select {
	case e := <-globalErr:
		if !errors.Is(e, srcErr) {
			t.Errorf("OnWatchedError got %v; want one wrapping %v", e, srcErr)
		}
	default:
		t.Errorf("OnWatchedError was not called for a source error after a successful EnableVerification")
	}
}

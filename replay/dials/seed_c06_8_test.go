// place in: ./
package dials

import (
	"context"
	"errors"
	"reflect"
	"sync"
	"testing"
	"time"
)

type seedC063Cfg_r7c06_8 struct {
	Gen int
}

type seedC063Ptrified_r7c06_8 struct {
	Gen *int
}

type seedC063Src_r7c06_8 struct {
	typ  *Type
	args WatchArgs
}

func (s *seedC063Src_r7c06_8) Value(_ context.Context, t *Type) (reflect.Value, error) {
	return reflect.ValueOf(seedC063Ptrified_r7c06_8{}).Convert(t.Type()), nil
}

func (s *seedC063Src_r7c06_8) Watch(_ context.Context, t *Type, args WatchArgs) error {
	s.typ = t
	s.args = args
	return nil
}

// seedC063Install installs a new version and only returns once the new-config
// event for it has been queued for the callback goroutine.
func (s *seedC063Src_r7c06_8) seedC063Install(ctx context.Context, t *testing.T, gen int) {
	t.Helper()
	v := reflect.ValueOf(seedC063Ptrified_r7c06_8{Gen: &gen}).Convert(s.typ.Type())
	if err := s.args.BlockingReportNewValue(ctx, v); err != nil {
		t.Fatalf("failed to install gen %d: %s", gen, err)
	}
	// the monitor pokes the "installed" channel before it queues the new-config
	// event; one more round trip through the monitor makes sure it is back in
	// its loop (no OnWatchedError is set, so this report has no other effect).
	if err := s.args.ReportError(ctx, errors.New("seedC063: sync")); err != nil {
		t.Fatalf("failed to sync with monitor: %s", err)
	}
}

type seedC063Call_r7c06_8 struct {
	oldCfg, newCfg *seedC063Cfg_r7c06_8
}

// TestSeedC06OldConfigIsImmediatePredecessor: with delayed verification and
// suppressed global callbacks, a registered callback still gets one ordinary
// call per installed version, and in each of them the old config must be the
// version installed immediately before the new one.
func TestDemoSeedC06OldConfigIsImmediatePredecessor_r7c06_8(t *testing.T) {
	ctx, cancel := context.WithTimeout(context.Background(), 15*time.Second)
	defer cancel()

	src := &seedC063Src_r7c06_8{}
	base := seedC063Cfg_r7c06_8{}
	d, err := Params[seedC063Cfg_r7c06_8]{
		OnNewConfig: func(ctx context.Context, oldCfg, newCfg *seedC063Cfg_r7c06_8) {
			// suppressed until EnableVerification; only checked loosely below
		},
		DelayInitialVerification:                    true,
		CallGlobalCallbacksAfterVerificationEnabled: true,
	}.Config(ctx, &base, src)
	if err != nil {
		t.Fatalf("Config failed: %s", err)
	}

	var mu sync.Mutex
	var got []seedC063Call_r7c06_8

	initCfg, serial := d.ViewVersion()
	unreg := d.RegisterCallback(ctx, serial, func(ctx context.Context, oldCfg, newCfg *seedC063Cfg_r7c06_8) {
		mu.Lock()
		defer mu.Unlock()
		got = append(got, seedC063Call_r7c06_8{oldCfg: oldCfg, newCfg: newCfg})
	})
	if unreg == nil {
		t.Fatal("nil unregister func")
	}

	installed := []*seedC063Cfg_r7c06_8{initCfg}
	for gen := 1; gen <= 3; gen++ {
		src.seedC063Install(ctx, t, gen)
		installed = append(installed, d.View())
	}
	if _, _, err := d.EnableVerification(ctx); err != nil {
		t.Fatalf("EnableVerification failed: %s", err)
	}
	for gen := 4; gen <= 5; gen++ {
		src.seedC063Install(ctx, t, gen)
		installed = append(installed, d.View())
	}

	// unregistering waits for all the events queued before it to be handled.
	if !unreg(ctx) {
		t.Fatal("unregister failed")
	}

	mu.Lock()
	defer mu.Unlock()
	if len(got) != 5 {
		t.Fatalf("expected 5 callback calls; got %d", len(got))
	}
	for i, c := range got {
		if c.newCfg != installed[i+1] || c.newCfg.Gen != i+1 {
			t.Errorf("call %d: new config is Gen %d; expected Gen %d", i, c.newCfg.Gen, i+1)
		}
		if c.oldCfg != installed[i] {
			t.Errorf("call %d (new Gen %d): old config is Gen %d; expected the immediate predecessor Gen %d",
				i, c.newCfg.Gen, c.oldCfg.Gen, installed[i].Gen)
		}
	}
}

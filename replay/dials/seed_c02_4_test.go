// place in: . (repository root, package dials)
package dials

import (
	"context"
	"reflect"
	"testing"
)

type demoSeedC021Config_r5c02_4 struct {
	Name string
	// excluded from stacking, but still an exported, reachable field
	Labels map[string]string `dials:"-"`
	Hosts  []string          `dials:"-"`
	Limit  *int              `dials:"-"`
}

type demoSeedC021Source_r5c02_4 struct{}

func (demoSeedC021Source_r5c02_4) Value(_ context.Context, t *Type) (reflect.Value, error) {
	v := reflect.New(t.Type())
	name := "from-source"
	v.Elem().FieldByName("Name").Set(reflect.ValueOf(&name))
	return v, nil
}

func TestDemoSeedC021OmittedFieldsAreIsolated_r5c02_4(t *testing.T) {
	limit := 10
	defaults := &demoSeedC021Config_r5c02_4{
		Name:   "default",
		Labels: map[string]string{"env": "prod"},
		Hosts:  []string{"a", "b"},
		Limit:  &limit,
	}
	d, err := Config(context.Background(), defaults, demoSeedC021Source_r5c02_4{})
	if err != nil {
		t.Fatalf("Config failed: %s", err)
	}
	cfg := d.View()
	if cfg.Name != "from-source" {
		t.Fatalf("unexpected name %q", cfg.Name)
	}
	if !reflect.DeepEqual(cfg.Labels, defaults.Labels) || !reflect.DeepEqual(cfg.Hosts, defaults.Hosts) || *cfg.Limit != 10 {
		t.Fatalf("omitted fields not carried over: %+v", cfg)
	}

	// mutating the view must not write through to the caller's defaults
	cfg.Labels["env"] = "mutated"
	cfg.Hosts[0] = "mutated"
	*cfg.Limit = 99
	if defaults.Labels["env"] != "prod" {
		t.Errorf("map in dials:\"-\" field shared with defaults: defaults.Labels = %v", defaults.Labels)
	}
	if defaults.Hosts[0] != "a" {
		t.Errorf("slice in dials:\"-\" field shared with defaults: defaults.Hosts = %v", defaults.Hosts)
	}
	if limit != 10 {
		t.Errorf("pointer in dials:\"-\" field shared with defaults: limit = %d", limit)
	}

	// same thing at the deep-copy level
	in := demoSeedC021Config_r5c02_4{Labels: map[string]string{"k": "v"}}
	out := realDeepCopy(in).Interface().(demoSeedC021Config_r5c02_4)
	out.Labels["k"] = "changed"
	if in.Labels["k"] != "v" {
		t.Errorf("realDeepCopy shared map of dials:\"-\" field: %v", in.Labels)
	}
}

// place in: ./
package dials

import (
	"context"
	"errors"
	"reflect"
	"testing"
	"time"
)

var seedC042ErrNoPort_r7c04_7 = errors.New("seedC042: port must be set")

// seedC042Config requires Port to be set by some source.
type seedC042Config_r7c04_7 struct {
	Name string
	Port int
}

func (c *seedC042Config_r7c04_7) Verify() error {
	if c.Port == 0 {
		return seedC042ErrNoPort_r7c04_7
	}
	return nil
}

// seedC042Watcher starts out blank (like sourcewrap.Blank) and lets the test
// push values later.
type seedC042Watcher_r7c04_7 struct {
	args WatchArgs
}

func (s *seedC042Watcher_r7c04_7) Value(_ context.Context, t *Type) (reflect.Value, error) {
	return reflect.New(t.Type()), nil
}

func (s *seedC042Watcher_r7c04_7) Watch(_ context.Context, _ *Type, args WatchArgs) error {
	s.args = args
	return nil
}

// With SkipInitialVerification only Config()'s own Verify() call is skipped:
// every update from a watching source has to pass Verify() before it becomes
// visible. Here the initial (unverified) config is invalid, and the first
// update does not fix it (it sets nothing that differs from the defaults), so
// the update must be rejected.
func TestDemoSeedC04UnchangedInvalidRestackIsRejected_r7c04_7(t *testing.T) {
	ctx, cancel := context.WithTimeout(context.Background(), 15*time.Second)
	defer cancel()

	errCalls := make(chan error, 4)
	newCfgs := make(chan *seedC042Config_r7c04_7, 4)
	w := &seedC042Watcher_r7c04_7{}
	base := seedC042Config_r7c04_7{Name: "svc"}
	d, err := Params[seedC042Config_r7c04_7]{
		SkipInitialVerification: true,
		OnWatchedError: func(_ context.Context, err error, _, _ *seedC042Config_r7c04_7) {
			errCalls <- err
		},
		OnNewConfig: func(_ context.Context, _, nc *seedC042Config_r7c04_7) {
			newCfgs <- nc
		},
	}.Config(ctx, &base, w)
	if err != nil {
		t.Fatalf("Config failed: %s", err)
	}
	before, beforeSerial := d.ViewVersion()

	// The late source arrives, but does not provide the required Port.
	name := "svc"
	update := struct {
		Name *string
		Port *int
	}{Name: &name}

	repErr := w.args.BlockingReportNewValue(ctx, reflect.ValueOf(update))
	if !errors.Is(repErr, seedC042ErrNoPort_r7c04_7) {
		t.Errorf("blocking report of an update failing Verify() returned %v; want an error wrapping %q",
			repErr, seedC042ErrNoPort_r7c04_7)
	}

	after, afterSerial := d.ViewVersion()
	if after != before || afterSerial != beforeSerial {
		t.Errorf("view/version changed by an update that fails Verify(): %p %+v -> %p %+v (Verify: %v)",
			before, beforeSerial, after, afterSerial, after.Verify())
	}

	select {
	case c := <-d.Events():
		t.Errorf("Events() delivered a config failing Verify(): %+v (%v)", *c, c.Verify())
	default:
	}

	select {
	case e := <-errCalls:
		if !errors.Is(e, seedC042ErrNoPort_r7c04_7) {
			t.Errorf("unexpected error in OnWatchedError: %s", e)
		}
	case c := <-newCfgs:
		t.Errorf("OnNewConfig called with a config failing Verify(): %+v (%v)", *c, c.Verify())
	case <-ctx.Done():
		t.Fatalf("timed out waiting for OnWatchedError")
	}

	// A later update that makes the config valid must still go through.
	port := 8080
	update.Port = &port
	if repErr := w.args.BlockingReportNewValue(ctx, reflect.ValueOf(update)); repErr != nil {
		t.Errorf("valid update rejected: %s", repErr)
	}
	if v := d.View(); v.Port != 8080 {
		t.Errorf("valid update not installed: %+v", *v)
	}
}

// place in: ./ (worktree root, package dials)
package dials

import (
	"context"
	"reflect"
	"testing"
	"time"
)

type demoSeedc06_5x3Cfg struct {
	Foo string
}

type demoSeedc06_5x3Src struct {
	t    *Type
	args WatchArgs
}

func (s *demoSeedc06_5x3Src) Value(_ context.Context, t *Type) (reflect.Value, error) {
	return reflect.New(t.Type()).Elem(), nil
}

func (s *demoSeedc06_5x3Src) Watch(_ context.Context, t *Type, args WatchArgs) error {
	s.t = t
	s.args = args
	return nil
}

func (s *demoSeedc06_5x3Src) send(ctx context.Context, foo string) error {
	v := reflect.New(s.t.Type()).Elem()
	v.Field(0).Set(reflect.ValueOf(&foo))
	return s.args.ReportNewValue(ctx, v)
}

// Every installed version (i.e. every version ViewVersion() hands out with a
// new serial) must be delivered to a registered callback that keeps up, and
// the old config of each call must be the new config of the previous one --
// also when a watcher re-reports a value that re-stacks to an identical config.
func TestDemoSeedNoInstalledVersionSkipped(t *testing.T) {
	ctx, cancel := context.WithTimeout(context.Background(), 10*time.Second)
	defer cancel()

	announced := make(chan *demoSeedc06_5x3Cfg, 8)
	src := &demoSeedc06_5x3Src{}
	p := Params[demoSeedc06_5x3Cfg]{
		OnNewConfig: func(_ context.Context, _, n *demoSeedc06_5x3Cfg) { announced <- n },
	}
	d, err := p.Config(ctx, &demoSeedc06_5x3Cfg{Foo: "initial"}, src)
	if err != nil {
		t.Fatalf("config failed: %s", err)
	}
	initCfg, initSerial := d.ViewVersion()

	type call struct{ o, n *demoSeedc06_5x3Cfg }
	calls := []call{} // only touched by the callback goroutine until unregistered
	unreg := d.RegisterCallback(ctx, initSerial, func(_ context.Context, o, n *demoSeedc06_5x3Cfg) {
		calls = append(calls, call{o, n})
	})
	if unreg == nil {
		t.Fatal("registration failed")
	}

	// install three versions, the second one identical in content to the first
	installed := []*demoSeedc06_5x3Cfg{initCfg}
	for i, foo := range []string{"a", "a", "b"} {
		if sendErr := src.send(ctx, foo); sendErr != nil {
			t.Fatalf("send failed: %s", sendErr)
		}
		for {
			cfg, serial := d.ViewVersion()
			if serial.s == uint64(i+1) {
				installed = append(installed, cfg)
				break
			}
			if ctx.Err() != nil {
				t.Fatalf("timeout waiting for version %d", i+1)
			}
			time.Sleep(time.Millisecond)
		}
	}
	if len(installed) != 4 || installed[1] == installed[2] {
		t.Fatalf("expected 3 distinct installed versions, got %v", installed)
	}

	// wait for the last version to reach the callback goroutine, then flush
	// it with the unregister (queued behind that event).
	for last := (*demoSeedc06_5x3Cfg)(nil); last != installed[3]; {
		select {
		case last = <-announced:
		case <-ctx.Done():
			t.Fatal("timeout waiting for the last version to be announced")
		}
	}
	if !unreg(ctx) {
		t.Fatal("unregister failed")
	}

	if len(calls) != 3 {
		t.Errorf("3 versions were installed (serials 1..3) but the callback ran %d times", len(calls))
	}
	prev := initCfg
	for i, c := range calls {
		if c.o != prev {
			t.Errorf("call %d: old config %p (%+v) is not the previously delivered config %p (%+v): a version was skipped",
				i, c.o, c.o, prev, prev)
		}
		prev = c.n
	}
	for i, v := range installed[1:] {
		if i >= len(calls) || calls[i].n != v {
			t.Errorf("installed version with serial %d (%+v) not delivered as call %d", i+1, v, i)
		}
	}
}

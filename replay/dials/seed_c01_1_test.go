// place in: . (repository root, next to dials.go)
package dials_test

import (
	"context"
	"reflect"
	"testing"

	"github.com/vimeo/dials"
)

// fnSource1 is a Source which allocates a value of the (pointerified) type it
// is handed and lets a callback populate the fields it wants to "set".
type fnSource1 func(v reflect.Value)

func (f fnSource1) Value(_ context.Context, t *dials.Type) (reflect.Value, error) {
	v := reflect.New(t.Type())
	f(v.Elem())
	return v, nil
}

// A source that sets a map-typed leaf to an empty (non-nil) map has set that
// leaf: maps are replaced as a whole, so the stacked value must be the empty
// map, not the default and not the value of an earlier layer.
func TestDemoSeedEmptyMapLayerReplaces(t *testing.T) {
	type cfg struct {
		Name   string
		Labels map[string]string
	}

	clearLabels := fnSource1(func(v reflect.Value) {
		v.FieldByName("Labels").Set(reflect.ValueOf(map[string]string{}))
	})
	setLabels := fnSource1(func(v reflect.Value) {
		v.FieldByName("Labels").Set(reflect.ValueOf(map[string]string{"tier": "gold"}))
	})
	nothing := fnSource1(func(v reflect.Value) {})

	// default has entries, the only layer replaces it with an empty map
	def := cfg{Name: "n", Labels: map[string]string{"env": "prod"}}
	d, err := dials.Config(context.Background(), &def, nothing, clearLabels)
	if err != nil {
		t.Fatalf("Config failed: %s", err)
	}
	if got := d.View().Labels; got == nil || len(got) != 0 {
		t.Errorf("default overridden by empty map: got %#v; want empty non-nil map", got)
	}
	if d.View().Name != "n" {
		t.Errorf("unexpected Name %q", d.View().Name)
	}

	// earlier layer sets entries, last layer replaces with an empty map
	def2 := cfg{Name: "n"}
	d2, err := dials.Config(context.Background(), &def2, setLabels, clearLabels)
	if err != nil {
		t.Fatalf("Config failed: %s", err)
	}
	if got := d2.View().Labels; got == nil || len(got) != 0 {
		t.Errorf("earlier layer overridden by empty map: got %#v; want empty non-nil map", got)
	}

	// sanity: the reverse order yields the non-empty map
	def3 := cfg{Name: "n"}
	d3, err := dials.Config(context.Background(), &def3, clearLabels, setLabels)
	if err != nil {
		t.Fatalf("Config failed: %s", err)
	}
	if got := d3.View().Labels; !reflect.DeepEqual(got, map[string]string{"tier": "gold"}) {
		t.Errorf("got %#v; want tier=gold", got)
	}
}

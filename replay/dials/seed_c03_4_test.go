// place in: ./ (worktree root, package dials)
package dials

import (
	"context"
	"reflect"
	"testing"
)

type demoSeedC031Node_r5c03_4 struct {
	Name string
	Kids []*demoSeedC031Node_r5c03_4
}

type demoSeedC031Cfg_r5c03_4 struct {
	// the same *Node is held by two interface-typed fields and by a slice element
	First  interface{}
	Second interface{}
	Nodes  []*demoSeedC031Node_r5c03_4
}

func demoSeedC031Defaults_r5c03_4() *demoSeedC031Cfg_r5c03_4 {
	shared := &demoSeedC031Node_r5c03_4{Name: "shared"}
	other := &demoSeedC031Node_r5c03_4{Name: "other", Kids: []*demoSeedC031Node_r5c03_4{shared}}
	return &demoSeedC031Cfg_r5c03_4{
		First:  shared,
		Second: shared,
		Nodes:  []*demoSeedC031Node_r5c03_4{other, shared},
	}
}

func demoSeedC031Check_r5c03_4(t *testing.T, in, out *demoSeedC031Cfg_r5c03_4) {
	t.Helper()
	if !reflect.DeepEqual(in, out) {
		t.Errorf("result not deeply equal to the defaults: got %+v; want %+v", out, in)
	}
	f, fOK := out.First.(*demoSeedC031Node_r5c03_4)
	s, sOK := out.Second.(*demoSeedC031Node_r5c03_4)
	if !fOK || !sOK {
		t.Fatalf("unexpected dynamic types: First %T; Second %T", out.First, out.Second)
	}
	if f == in.First.(*demoSeedC031Node_r5c03_4) {
		t.Errorf("First still points at the caller's node (not fresh)")
	}
	if f != s {
		t.Errorf("pointer shared by two interface fields was split: First %p; Second %p", f, s)
	}
	if f != out.Nodes[1] {
		t.Errorf("pointer shared by interface field and slice element was split: First %p; Nodes[1] %p", f, out.Nodes[1])
	}
	if f != out.Nodes[0].Kids[0] {
		t.Errorf("pointer shared by interface field and nested slice element was split: First %p; Nodes[0].Kids[0] %p",
			f, out.Nodes[0].Kids[0])
	}
}

func TestDemoSeedC031SharedPointerInInterfacesDeepCopy_r5c03_4(t *testing.T) {
	in := demoSeedC031Defaults_r5c03_4()
	out := realDeepCopy(in).Interface().(*demoSeedC031Cfg_r5c03_4)
	demoSeedC031Check_r5c03_4(t, in, out)
}

func TestDemoSeedC031SharedPointerInInterfacesConfig_r5c03_4(t *testing.T) {
	in := demoSeedC031Defaults_r5c03_4()
	d, err := Config(context.Background(), in)
	if err != nil {
		t.Fatalf("Config failed: %s", err)
	}
	demoSeedC031Check_r5c03_4(t, in, d.View())
}

// place in: ./ (worktree root, package dials)
package dials

import (
	"context"
	"reflect"
	"testing"
	"time"
)

type demoSeedc06_3x1Cfg struct {
	Foo string
}

type demoSeedc06_3x1Src struct {
	t    *Type
	args WatchArgs
}

func (s *demoSeedc06_3x1Src) Value(_ context.Context, t *Type) (reflect.Value, error) {
	return reflect.New(t.Type()).Elem(), nil
}

func (s *demoSeedc06_3x1Src) Watch(_ context.Context, t *Type, args WatchArgs) error {
	s.t = t
	s.args = args
	return nil
}

func (s *demoSeedc06_3x1Src) send(ctx context.Context, foo string) error {
	v := reflect.New(s.t.Type()).Elem()
	v.Field(0).Set(reflect.ValueOf(&foo))
	return s.args.ReportNewValue(ctx, v)
}

// A callback registered with the serial ViewVersion() returned for the
// *initial* version (serial 0, but a perfectly valid token) must get an
// immediate catch-up call if a newer version was already announced by the time
// the registration is processed.
func TestDemoSeedCatchUpWithInitialVersionSerial(t *testing.T) {
	ctx, cancel := context.WithTimeout(context.Background(), 10*time.Second)
	defer cancel()

	announced := make(chan *demoSeedc06_3x1Cfg, 4)
	src := &demoSeedc06_3x1Src{}
	p := Params[demoSeedc06_3x1Cfg]{
		OnNewConfig: func(_ context.Context, _, n *demoSeedc06_3x1Cfg) { announced <- n },
	}
	d, err := p.Config(ctx, &demoSeedc06_3x1Cfg{Foo: "initial"}, src)
	if err != nil {
		t.Fatalf("config failed: %s", err)
	}

	initCfg, initSerial := d.ViewVersion()

	if sendErr := src.send(ctx, "second"); sendErr != nil {
		t.Fatalf("send failed: %s", sendErr)
	}
	// wait until the callback goroutine has announced the new version
	select {
	case n := <-announced:
		if n.Foo != "second" {
			t.Fatalf("unexpected new config: %+v", n)
		}
	case <-ctx.Done():
		t.Fatal("timed out waiting for the new config to be announced")
	}

	type call struct{ o, n *demoSeedc06_3x1Cfg }
	calls := make(chan call, 8)
	unreg := d.RegisterCallback(ctx, initSerial, func(_ context.Context, o, n *demoSeedc06_3x1Cfg) {
		calls <- call{o, n}
	})
	if unreg == nil {
		t.Fatal("registration failed")
	}

	// zero-valued serial: never a catch-up call
	zeroCalls := make(chan call, 8)
	unregZero := d.RegisterCallback(ctx, CfgSerial[demoSeedc06_3x1Cfg]{}, func(_ context.Context, o, n *demoSeedc06_3x1Cfg) {
		zeroCalls <- call{o, n}
	})
	if unregZero == nil {
		t.Fatal("registration failed")
	}

	// unregistering is processed after the registrations (FIFO), so once this
	// returns, any catch-up call has already happened.
	if !unreg(ctx) || !unregZero(ctx) {
		t.Fatal("unregister failed")
	}

	if len(zeroCalls) != 0 {
		t.Errorf("zero-valued serial got %d catch-up calls; expected none", len(zeroCalls))
	}
	if len(calls) != 1 {
		t.Fatalf("callback registered with the initial version's serial got %d catch-up calls; expected exactly 1", len(calls))
	}
	c := <-calls
	if c.o != initCfg || c.n == nil || c.n.Foo != "second" {
		t.Errorf("unexpected catch-up args: old=%+v new=%+v", c.o, c.n)
	}
}

package dials

// Replay batteries for obligations of dials.go / cb_mgr.go.  Injected into package dials with
// `go test -overlay`; each test FAILS (or crashes) exactly when the real code violates the clause.

import (
	"context"
	"errors"
	"reflect"
	"sync"
	"testing"
	"time"
)

type rpCfg struct {
	A   int
	bad bool
}

type rpVCfg struct {
	A int
}

var rpVerifyErr error
var rpVerifyCalls int
var rpVerifyMu sync.Mutex

func (c *rpVCfg) Verify() error {
	rpVerifyMu.Lock()
	defer rpVerifyMu.Unlock()
	rpVerifyCalls++
	return rpVerifyErr
}

// rpWatcher is a source that hands its WatchArgs to the test.
type rpWatcher struct {
	wa   WatchArgs
	typ  *Type
	init reflect.Value
}

func (w *rpWatcher) Value(_ context.Context, t *Type) (reflect.Value, error) {
	w.typ = t
	return reflect.New(t.Type()), nil
}
func (w *rpWatcher) Watch(_ context.Context, t *Type, wa WatchArgs) error {
	w.wa = wa
	w.typ = t
	return nil
}

// obligation dials.(*callbackMgr).runCBs.makeslice.size : calling an unregister function twice
func TestReplay_C08_UnregisterTwice(t *testing.T) {
	ctx, cancel := context.WithTimeout(context.Background(), 5*time.Second)
	defer cancel()
	w := &rpWatcher{}
	d, err := Config(ctx, &rpCfg{}, w)
	if err != nil {
		t.Fatal(err)
	}
	_, tok := d.ViewVersion()
	unreg := d.RegisterCallback(ctx, tok, func(context.Context, *rpCfg, *rpCfg) {})
	if unreg == nil {
		t.Fatal("registration failed")
	}
	if !unreg(ctx) {
		t.Fatal("first unregister failed")
	}
	c2, cancel2 := context.WithTimeout(ctx, 300*time.Millisecond)
	defer cancel2()
	unreg(c2) // crashes the process with "makeslice: cap out of range" when the defect is present
	// a further install must still be possible: the callback goroutine is alive
	got := make(chan struct{}, 1)
	if u := d.RegisterCallback(ctx, CfgSerial[rpCfg]{}, func(context.Context, *rpCfg, *rpCfg) { got <- struct{}{} }); u == nil {
		t.Fatal("registration after double unregister failed")
	}
	v := reflect.New(w.typ.Type())
	if err := w.wa.BlockingReportNewValue(ctx, v); err != nil {
		t.Fatal(err)
	}
	select {
	case <-got:
	case <-time.After(2 * time.Second):
		t.Fatal("callback goroutine is dead after a double unregister")
	}
}

// obligation dials.(*Dials).submitEventBlocking.send.open : API call after the monitor has exited
func TestReplay_C08_RegisterAfterDone(t *testing.T) {
	ctx, cancel := context.WithTimeout(context.Background(), 5*time.Second)
	defer cancel()
	w := &rpWatcher{}
	d, err := Config(ctx, &rpCfg{}, w)
	if err != nil {
		t.Fatal(err)
	}
	w.wa.Done(ctx)
	time.Sleep(100 * time.Millisecond) // let the monitor exit and close its channel
	c2, cancel2 := context.WithTimeout(ctx, 300*time.Millisecond)
	defer cancel2()
	// must return (nil or a function), never panic with "send on closed channel"
	unreg := d.RegisterCallback(c2, CfgSerial[rpCfg]{}, func(context.Context, *rpCfg, *rpCfg) {})
	if unreg != nil {
		c3, cancel3 := context.WithTimeout(ctx, 300*time.Millisecond)
		defer cancel3()
		unreg(c3)
	}
}

// obligation dials.(*Dials).EnableVerification.ensures.C09_success_returns_installed : no watcher
func TestReplay_C09_EnableVerificationNoWatcher(t *testing.T) {
	ctx := context.Background()
	rpVerifyErr = nil
	d, err := Params[rpVCfg]{DelayInitialVerification: true}.Config(ctx, &rpVCfg{A: 7})
	if err != nil {
		t.Fatal(err)
	}
	cfg, tok, err := d.EnableVerification(ctx)
	if err != nil {
		t.Fatalf("unexpected error %v", err)
	}
	if cfg == nil {
		t.Fatalf("EnableVerification succeeded but returned a nil config")
	}
	if cfg != d.View() || tok.cfg != cfg {
		t.Fatalf("EnableVerification returned %p, installed is %p", cfg, d.View())
	}
	rpVerifyErr = errors.New("bad")
	d2, err := Params[rpVCfg]{DelayInitialVerification: true}.Config(ctx, &rpVCfg{A: 7})
	if err != nil {
		t.Fatal(err)
	}
	if c, _, err := d2.EnableVerification(ctx); err == nil || c != nil {
		t.Fatalf("failing Verify: got cfg=%v err=%v", c, err)
	}
	rpVerifyErr = nil
}

// obligation dials.(*Dials).monitor.loop0.iter.C09_source_error_delivered_iff
func TestReplay_C09_SourceErrorSuppression(t *testing.T) {
	for _, tc := range []struct {
		delay, opt, enable, want bool
	}{
		{false, false, false, true},
		{false, true, false, true},
		{true, false, false, true},
		{true, true, false, false},
		{true, true, true, true},
		{true, false, true, true},
	} {
		ctx, cancel := context.WithTimeout(context.Background(), 5*time.Second)
		w := &rpWatcher{}
		got := make(chan error, 4)
		p := Params[rpCfg]{DelayInitialVerification: tc.delay, CallGlobalCallbacksAfterVerificationEnabled: tc.opt,
			OnWatchedError: func(_ context.Context, err error, _, _ *rpCfg) { got <- err }}
		d, err := p.Config(ctx, &rpCfg{}, w)
		if err != nil {
			t.Fatal(err)
		}
		if tc.enable {
			if _, _, err := d.EnableVerification(ctx); err != nil {
				t.Fatal(err)
			}
		}
		if err := w.wa.ReportError(ctx, errors.New("source failed")); err != nil {
			t.Fatal(err)
		}
		delivered := false
		select {
		case <-got:
			delivered = true
		case <-time.After(300 * time.Millisecond):
		}
		if delivered != tc.want {
			t.Errorf("delay=%v option=%v enabled=%v: source error delivered=%v, want %v", tc.delay, tc.opt, tc.enable, delivered, tc.want)
		}
		cancel()
	}
}

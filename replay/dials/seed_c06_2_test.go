package dials

import (
	"context"
	"reflect"
	"testing"
	"time"
)

// zzDemo2Src is a minimal watching source that only records the arguments of
// its Watch call so that the test can push new values.
type zzDemo2Src struct {
	initial interface{}
	t       *Type
	args    WatchArgs
}

func (s *zzDemo2Src) Value(_ context.Context, t *Type) (reflect.Value, error) {
	return reflect.ValueOf(s.initial).Convert(t.t), nil
}

func (s *zzDemo2Src) Watch(_ context.Context, t *Type, args WatchArgs) error {
	s.t = t
	s.args = args
	return nil
}

// Unregistering one callback must not affect the callbacks registered after
// it: they still have to see every subsequently installed version, in
// installation order, and the unregistered one must stay silent.
func TestZZDemoC06UnregisterKeepsLaterCallbacks(t *testing.T) {
	type cfgT struct {
		Foo string
	}
	type ptrCfgT struct {
		Foo *string
	}
	strp := func(s string) *string { return &s }

	ctx, cancel := context.WithTimeout(context.Background(), 10*time.Second)
	defer cancel()

	src := &zzDemo2Src{initial: ptrCfgT{Foo: strp("v0")}}
	d, err := Config(ctx, &cfgT{}, src)
	if err != nil {
		t.Fatalf("config failed: %s", err)
	}
	_, serial := d.ViewVersion()

	type call struct{ who, oldFoo, newFoo string }
	calls := make(chan call, 16)
	mkCB := func(who string) NewConfigHandler[cfgT] {
		return func(_ context.Context, oldC, newC *cfgT) {
			calls <- call{who: who, oldFoo: oldC.Foo, newFoo: newC.Foo}
		}
	}
	unregA := d.RegisterCallback(ctx, serial, mkCB("A"))
	unregB := d.RegisterCallback(ctx, serial, mkCB("B"))
	unregC := d.RegisterCallback(ctx, serial, mkCB("C"))
	if unregA == nil || unregB == nil || unregC == nil {
		t.Fatal("registration failed")
	}

	// drop the first one before anything happens
	if !unregA(ctx) {
		t.Fatal("unregister of A failed")
	}

	if err := src.args.BlockingReportNewValue(ctx,
		reflect.ValueOf(ptrCfgT{Foo: strp("v1")}).Convert(src.t.t)); err != nil {
		t.Fatalf("install of v1 failed: %s", err)
	}
	// The monitor only picks up the next report after it has queued the
	// new-config event for v1.
	if err := src.args.ReportError(ctx, context.Canceled); err != nil {
		t.Fatalf("failed to sync with the monitor: %s", err)
	}
	// ... and the callback goroutine only acknowledges an unregistration
	// after it has worked through everything queued before it.
	if !unregB(ctx) {
		t.Fatal("unregister of B failed")
	}
	if !unregC(ctx) {
		t.Fatal("unregister of C failed")
	}
	close(calls)

	got := []call{}
	for c := range calls {
		got = append(got, c)
	}
	exp := []call{
		{who: "B", oldFoo: "v0", newFoo: "v1"},
		{who: "C", oldFoo: "v0", newFoo: "v1"},
	}
	if !reflect.DeepEqual(got, exp) {
		t.Errorf("unexpected callback invocations after unregistering A:\n got: %v\nwant: %v", got, exp)
	}
}

// place in: . (worktree root, package dials_test)
package dials_test

import (
	"context"
	"reflect"
	"testing"
	"time"

	"github.com/vimeo/dials"
)

type demoSeedc08_3x2Cfg struct {
	Foo string
}

type demoSeedc08_3x2Src struct {
	typ  *dials.Type
	args dials.WatchArgs
}

func (s *demoSeedc08_3x2Src) Value(_ context.Context, t *dials.Type) (reflect.Value, error) {
	return reflect.New(t.Type()), nil
}

func (s *demoSeedc08_3x2Src) Watch(_ context.Context, t *dials.Type, args dials.WatchArgs) error {
	s.typ, s.args = t, args
	return nil
}

func (s *demoSeedc08_3x2Src) val(foo string) reflect.Value {
	v := reflect.New(s.typ.Type())
	v.Elem().Field(0).Set(reflect.ValueOf(&foo))
	return v
}

// Calling the unregister func of the *only* registered callback twice must not
// crash the callback goroutine (and with it the process).
func TestDemoSeedUnregisterOnlyCallbackTwice(t *testing.T) {
	ctx, cancel := context.WithCancel(context.Background())
	defer cancel()

	src := &demoSeedc08_3x2Src{}
	d, err := dials.Config(ctx, &demoSeedc08_3x2Cfg{Foo: "init"}, src)
	if err != nil {
		t.Fatalf("Config failed: %s", err)
	}
	_, serial := d.ViewVersion()
	unreg := d.RegisterCallback(ctx, serial, func(context.Context, *demoSeedc08_3x2Cfg, *demoSeedc08_3x2Cfg) {})
	if unreg == nil {
		t.Fatal("registration failed")
	}

	uctx, ucancel := context.WithTimeout(ctx, 2*time.Second)
	defer ucancel()
	if !unreg(uctx) {
		t.Fatal("first unregister failed")
	}
	// second call: the handle is already gone and the callback set is empty
	unreg(uctx)

	// the library must still be alive: install and view a new config
	if sErr := src.args.ReportNewValue(uctx, src.val("after")); sErr != nil {
		t.Fatalf("ReportNewValue failed: %s", sErr)
	}
	deadline := time.Now().Add(2 * time.Second)
	for d.View().Foo != "after" {
		if time.Now().After(deadline) {
			t.Fatalf("new config never installed; View().Foo = %q", d.View().Foo)
		}
		time.Sleep(time.Millisecond)
	}
	// and callbacks can still be registered and unregistered
	_, serial = d.ViewVersion()
	unreg2 := d.RegisterCallback(uctx, serial, func(context.Context, *demoSeedc08_3x2Cfg, *demoSeedc08_3x2Cfg) {})
	if unreg2 == nil || !unreg2(uctx) {
		t.Fatal("callback goroutine is no longer servicing register/unregister")
	}
}

// place in: ./ (repository root, package dials)
package dials

import (
	"context"
	"fmt"
	"reflect"
	"testing"
	"time"
)

type demoSeed2Cfg struct {
	Name string
	S    fmt.Stringer
}

// demoSeed2BadOverlay has a pointer in the S slot whose type does not
// implement fmt.Stringer, so overlaying it onto demoSeed2Cfg fails to stack.
type demoSeed2BadOverlay struct {
	Name *string
	S    *int
}

type demoSeed2WatchSrc struct {
	args WatchArgs
}

func (s *demoSeed2WatchSrc) Value(_ context.Context, t *Type) (reflect.Value, error) {
	return reflect.New(t.Type()).Elem(), nil
}

func (s *demoSeed2WatchSrc) Watch(_ context.Context, _ *Type, args WatchArgs) error {
	s.args = args
	return nil
}

func demoSeed2Run(t *testing.T, suppressOpt, enableFirst bool) (gotErr error, delivered bool) {
	t.Helper()
	ctx, cancel := context.WithCancel(context.Background())
	defer cancel()

	errCh := make(chan error, 4)
	w := demoSeed2WatchSrc{}
	base := demoSeed2Cfg{Name: "base"}
	d, err := Params[demoSeed2Cfg]{
		DelayInitialVerification:                    true,
		CallGlobalCallbacksAfterVerificationEnabled: suppressOpt,
		OnWatchedError: func(_ context.Context, err error, oldCfg, newCfg *demoSeed2Cfg) {
			errCh <- err
		},
	}.Config(ctx, &base, &w)
	if err != nil {
		t.Fatalf("Config failed: %s", err)
	}
	if enableFirst {
		if _, _, vfErr := d.EnableVerification(ctx); vfErr != nil {
			t.Fatalf("EnableVerification failed: %s", vfErr)
		}
	}

	n, name := 42, "new"
	sendErr := w.args.BlockingReportNewValue(ctx, reflect.ValueOf(demoSeed2BadOverlay{Name: &name, S: &n}))
	if sendErr == nil {
		t.Fatalf("expected the un-stackable value to be rejected; installed: %+v", d.View())
	}
	// The error event is submitted before BlockingReportNewValue is
	// released, so a short wait is plenty.
	select {
	case e := <-errCh:
		return e, true
	case <-time.After(time.Second):
		return nil, false
	}
}

// Delay in force, but the suppress-until-enabled option is NOT set: the
// stacking error must be delivered to OnWatchedError.
func TestDemoSeedC09_2_StackErrorDeliveredWhileDelayedWithoutSuppressOption(t *testing.T) {
	e, delivered := demoSeed2Run(t, false, false)
	if !delivered {
		t.Fatalf("OnWatchedError was not called for a stacking error " +
			"(DelayInitialVerification=true, CallGlobalCallbacksAfterVerificationEnabled=false, before EnableVerification)")
	}
	t.Logf("delivered: %s", e)
}

// Control: once verification has been enabled the error is delivered in
// every configuration.
func TestDemoSeedC09_2_StackErrorDeliveredAfterEnable(t *testing.T) {
	for _, suppressOpt := range []bool{false, true} {
		if _, delivered := demoSeed2Run(t, suppressOpt, true); !delivered {
			t.Errorf("OnWatchedError not called after EnableVerification (suppress option %t)", suppressOpt)
		}
	}
}

// place in: ./
package dials

import (
	"context"
	"errors"
	"reflect"
	"sync"
	"sync/atomic"
	"testing"
	"time"
)

// seedC071Gate lets the test hold the monitor goroutine inside Verify().
type seedC071Gate_r6c07_5 struct {
	mu      sync.Mutex
	hold    chan struct{} // non-nil: Verify blocks until it is closed
	entered chan string   // receives Val every time a held Verify is entered
}

// seedC071TheGate is replaced at the start of every test run, so that repeated
// runs (-count=N) do not see the state of an earlier one.
var seedC071TheGate_r6c07_5 atomic.Pointer[seedC071Gate_r6c07_5]

func (g *seedC071Gate_r6c07_5) arm() chan struct{} {
	g.mu.Lock()
	defer g.mu.Unlock()
	g.hold = make(chan struct{})
	return g.hold
}

func (g *seedC071Gate_r6c07_5) current() chan struct{} {
	g.mu.Lock()
	defer g.mu.Unlock()
	return g.hold
}

type seedC071Config_r6c07_5 struct {
	Val string
}

func (c *seedC071Config_r6c07_5) Verify() error {
	g := seedC071TheGate_r6c07_5.Load()
	if g == nil {
		return nil
	}
	if h := g.current(); h != nil {
		g.entered <- c.Val
		<-h
	}
	return nil
}

// seedC071Source is a watching source that only records its WatchArgs.
type seedC071Source_r6c07_5 struct {
	wa  WatchArgs
	typ *Type
}

func (s *seedC071Source_r6c07_5) Value(_ context.Context, t *Type) (reflect.Value, error) {
	return reflect.New(t.Type()), nil
}

func (s *seedC071Source_r6c07_5) Watch(_ context.Context, t *Type, wa WatchArgs) error {
	s.wa = wa
	s.typ = t
	return nil
}

func (s *seedC071Source_r6c07_5) mk(val string) reflect.Value {
	v := reflect.New(s.typ.Type())
	v.Elem().FieldByName("Val").Set(reflect.ValueOf(&val))
	return v
}

func seedC071WaitEntered_r6c07_5(t *testing.T, g *seedC071Gate_r6c07_5, want string) {
	t.Helper()
	select {
	case got := <-g.entered:
		if got != want {
			t.Fatalf("monitor verifies %q; expected %q", got, want)
		}
	case <-time.After(10 * time.Second):
		t.Fatalf("monitor never started verifying %q", want)
	}
}

// Report A is submitted, its context is cancelled while the monitor is still
// busy verifying it, and it is installed afterwards. The next blocking report B
// of the same source must not return nil before B itself has been stacked.
func TestDemoSeedC07StaleReplyAfterCancelledReport_r6c07_5(t *testing.T) {
	ctx, cancel := context.WithCancel(context.Background())
	defer cancel()

	gate := &seedC071Gate_r6c07_5{entered: make(chan string, 16)}
	seedC071TheGate_r6c07_5.Store(gate)
	defer seedC071TheGate_r6c07_5.Store(nil)

	src := &seedC071Source_r6c07_5{}
	d, err := Config(ctx, &seedC071Config_r6c07_5{Val: "init"}, src)
	if err != nil {
		t.Fatalf("Config failed: %s", err)
	}

	// --- report A, cancelled between submission and installation
	holdA := gate.arm()
	ctxA, cancelA := context.WithCancel(ctx)
	aDone := make(chan error, 1)
	go func() { aDone <- src.wa.BlockingReportNewValue(ctxA, src.mk("A")) }()
	seedC071WaitEntered_r6c07_5(t, gate, "A")
	cancelA()
	select {
	case aErr := <-aDone:
		if !errors.Is(aErr, context.Canceled) {
			t.Fatalf("report A: expected a context error, got %v", aErr)
		}
	case <-time.After(10 * time.Second):
		t.Fatalf("report A did not return after its context was cancelled")
	}
	// the gate for B is armed before A's verification is released so that
	// there's no window in which B could slip through un-held.
	holdB := gate.arm()
	close(holdA)
	for deadline := time.Now().Add(10 * time.Second); d.View().Val != "A"; {
		if time.Now().After(deadline) {
			t.Fatalf("value A never got installed; view: %+v", *d.View())
		}
		time.Sleep(time.Millisecond)
	}

	// --- report B; the monitor is held inside Verify() for B.
	type seedC071Res struct {
		err  error
		view string
	}
	bDone := make(chan seedC071Res, 1)
	go func() {
		bErr := src.wa.BlockingReportNewValue(ctx, src.mk("B"))
		bDone <- seedC071Res{err: bErr, view: d.View().Val}
	}()
	seedC071WaitEntered_r6c07_5(t, gate, "B")

	select {
	case r := <-bDone:
		close(holdB)
		t.Fatalf("report B returned (err=%v) while the monitor was still verifying B; View().Val = %q at that time",
			r.err, r.view)
	case <-time.After(300 * time.Millisecond):
		// expected: B is still waiting for the re-stack
	}
	close(holdB)
	select {
	case r := <-bDone:
		if r.err != nil {
			t.Fatalf("report B failed: %s", r.err)
		}
		if r.view != "B" {
			t.Errorf("report B returned nil, but View().Val = %q", r.view)
		}
	case <-time.After(10 * time.Second):
		t.Fatalf("report B never returned")
	}
}

// place in: . (repository root, package dials)
package dials

import (
	"context"
	"reflect"
	"testing"
)

type demoSeedC022Config_r5c02_5 struct {
	Name  string
	Extra map[string]interface{}
}

// demoSeedC022Source is a watching source that hands dials a value whose
// Extra map has interface-typed values holding a slice, a map and a pointer.
type demoSeedC022Source_r5c02_5 struct {
	val  reflect.Value
	args WatchArgs
}

func (s *demoSeedC022Source_r5c02_5) Value(_ context.Context, t *Type) (reflect.Value, error) {
	return s.val, nil
}

func (s *demoSeedC022Source_r5c02_5) Watch(_ context.Context, _ *Type, args WatchArgs) error {
	s.args = args
	return nil
}

func TestDemoSeedC022InterfaceMapValuesAreIsolated_r5c02_5(t *testing.T) {
	ctx, cancel := context.WithCancel(context.Background())
	defer cancel()

	defPort := 80
	defaults := &demoSeedC022Config_r5c02_5{
		Name: "default",
		Extra: map[string]interface{}{
			"hosts": []string{"a", "b"},
			"tags":  map[string]string{"env": "prod"},
			"port":  &defPort,
			"n":     4,
		},
	}

	// no sources: the view is a copy of the defaults
	d0, err := Config(ctx, defaults)
	if err != nil {
		t.Fatalf("Config failed: %s", err)
	}
	v0 := d0.View()
	if !reflect.DeepEqual(v0, defaults) {
		t.Fatalf("view differs from defaults: %+v", v0)
	}
	v0.Extra["hosts"].([]string)[0] = "mutated"
	v0.Extra["tags"].(map[string]string)["env"] = "mutated"
	*v0.Extra["port"].(*int) = 1
	if got := defaults.Extra["hosts"].([]string)[0]; got != "a" {
		t.Errorf("slice held in map[string]interface{} shared with defaults: %q", got)
	}
	if got := defaults.Extra["tags"].(map[string]string)["env"]; got != "prod" {
		t.Errorf("map held in map[string]interface{} shared with defaults: %q", got)
	}
	if defPort != 80 {
		t.Errorf("pointer held in map[string]interface{} shared with defaults: %d", defPort)
	}

	// a source value, and two successive versions stacked from it
	srcExtra := map[string]interface{}{"hosts": []string{"x", "y"}}
	ptrCfg := struct {
		Name  *string
		Extra map[string]interface{}
	}{Extra: srcExtra}
	src := &demoSeedC022Source_r5c02_5{val: reflect.ValueOf(&ptrCfg)}
	d, err := Config(ctx, &demoSeedC022Config_r5c02_5{Name: "default"}, src)
	if err != nil {
		t.Fatalf("Config failed: %s", err)
	}
	v1 := d.View()
	if err := src.args.BlockingReportNewValue(ctx, src.val); err != nil {
		t.Fatalf("restack failed: %s", err)
	}
	v2 := d.View()
	if v1 == v2 {
		t.Fatalf("no new version installed")
	}
	if !reflect.DeepEqual(v1, v2) {
		t.Fatalf("same inputs stacked differently: %+v vs %+v", v1, v2)
	}
	v1.Extra["hosts"].([]string)[0] = "mutated-v1"
	if got := v2.Extra["hosts"].([]string)[0]; got != "x" {
		t.Errorf("two config versions share a slice: v2 hosts[0] = %q", got)
	}
	if got := srcExtra["hosts"].([]string)[0]; got != "x" {
		t.Errorf("config version shares a slice with the source's value: %q", got)
	}
}

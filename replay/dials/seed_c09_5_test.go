// place in: ./
package dials

import (
	"context"
	"errors"
	"fmt"
	"reflect"
	"testing"
	"time"
)

// seedC091Cfg is a config whose validity is controlled by a field.
type seedC091Cfg_r6c09_5 struct {
	Valid bool
	Foo   string
}

var seedC091ErrInvalid_r6c09_5 = errors.New("seedC091: invalid config")

func (c seedC091Cfg_r6c09_5) Verify() error {
	if c.Valid {
		return nil
	}
	return seedC091ErrInvalid_r6c09_5
}

type seedC091Ptrified_r6c09_5 struct {
	Valid *bool
	Foo   *string
}

// seedC091WatchSrc is a watching source that lets the test push values
// with both the non-blocking and the blocking report methods.
type seedC091WatchSrc_r6c09_5 struct {
	t    *Type
	args WatchArgs
}

func (s *seedC091WatchSrc_r6c09_5) Value(_ context.Context, t *Type) (reflect.Value, error) {
	return reflect.ValueOf(seedC091Ptrified_r6c09_5{}).Convert(t.t), nil
}

func (s *seedC091WatchSrc_r6c09_5) Watch(_ context.Context, t *Type, args WatchArgs) error {
	s.t = t
	s.args = args
	return nil
}

func (s *seedC091WatchSrc_r6c09_5) val(valid bool, foo string) reflect.Value {
	return reflect.ValueOf(seedC091Ptrified_r6c09_5{Valid: &valid, Foo: &foo}).Convert(s.t.t)
}

// A Verify() failure on a re-stack must be delivered to OnWatchedError in
// every state in which verification is on (no delay at all, or delay lifted
// by a successful EnableVerification), regardless of how the source reported
// the value (ReportNewValue or BlockingReportNewValue).
func TestDemoSeedC09VerifyFailureOfBlockingReportReachesOnWatchedError_r6c09_5(t *testing.T) {
	for _, delay := range []bool{false, true} {
		for _, suppress := range []bool{false, true} {
			delay, suppress := delay, suppress
			t.Run(fmt.Sprintf("delay=%t/suppress=%t", delay, suppress), func(t *testing.T) {
				ctx, cancel := context.WithTimeout(context.Background(), 10*time.Second)
				defer cancel()

				type seedC091ErrCall struct {
					err    error
					newCfg *seedC091Cfg_r6c09_5
				}
				errCalls := make(chan seedC091ErrCall, 16)
				src := seedC091WatchSrc_r6c09_5{}
				base := seedC091Cfg_r6c09_5{Valid: true, Foo: "base"}
				d, cfgErr := Params[seedC091Cfg_r6c09_5]{
					OnWatchedError: func(_ context.Context, err error, _, nc *seedC091Cfg_r6c09_5) {
						errCalls <- seedC091ErrCall{err: err, newCfg: nc}
					},
					DelayInitialVerification:                    delay,
					CallGlobalCallbacksAfterVerificationEnabled: suppress,
				}.Config(ctx, &base, &src)
				if cfgErr != nil {
					t.Fatalf("Config failed: %s", cfgErr)
				}

				// switch verification on (a no-op without the delay)
				if _, _, enErr := d.EnableVerification(ctx); enErr != nil {
					t.Fatalf("EnableVerification failed on a valid config: %s", enErr)
				}

				fence := make(chan *seedC091Cfg_r6c09_5, 16)
				_, serial := d.ViewVersion()
				if unreg := d.RegisterCallback(ctx, serial, func(_ context.Context, _, nc *seedC091Cfg_r6c09_5) {
					fence <- nc
				}); unreg == nil {
					t.Fatalf("RegisterCallback failed")
				}

				// blocking report of a value that fails Verify()
				repErr := src.args.BlockingReportNewValue(ctx, src.val(false, "bad"))
				if !errors.Is(repErr, seedC091ErrInvalid_r6c09_5) {
					t.Fatalf("BlockingReportNewValue: got error %v; want one wrapping %v", repErr, seedC091ErrInvalid_r6c09_5)
				}
				if d.View().Foo != "base" {
					t.Fatalf("invalid config was installed: %+v", d.View())
				}

				// A valid value as fence: callback events are processed in
				// order, so once the registered callback for the fence value
				// ran, the error event (submitted earlier) was handled.
				if err := src.args.ReportNewValue(ctx, src.val(true, "fence")); err != nil {
					t.Fatalf("ReportNewValue: %s", err)
				}
				select {
				case nc := <-fence:
					if nc.Foo != "fence" {
						t.Fatalf("unexpected fence config %+v", nc)
					}
				case <-ctx.Done():
					t.Fatalf("timed out waiting for the fence config")
				}

				select {
				case ec := <-errCalls:
					if !errors.Is(ec.err, seedC091ErrInvalid_r6c09_5) {
						t.Errorf("OnWatchedError got %v; want %v", ec.err, seedC091ErrInvalid_r6c09_5)
					}
					if ec.newCfg == nil || ec.newCfg.Foo != "bad" {
						t.Errorf("OnWatchedError got newConfig %+v; want the rejected config", ec.newCfg)
					}
				default:
					t.Errorf("OnWatchedError was not called for a Verify() failure although verification is on (delay=%t, suppress=%t)", delay, suppress)
				}
			})
		}
	}
}

// place in: ./ (repository root, package dials)
package dials

import (
	"context"
	"errors"
	"reflect"
	"testing"
	"time"
)

type demoSeed3Cfg struct {
	Valid bool
	Foo   string
}

func (c demoSeed3Cfg) Verify() error {
	if c.Valid {
		return nil
	}
	return errors.New("demoseed3: invalid")
}

type demoSeed3PtrCfg struct {
	Valid *bool
	Foo   *string
}

type demoSeed3WatchSrc struct {
	t    *Type
	args WatchArgs
}

func (s *demoSeed3WatchSrc) Value(_ context.Context, t *Type) (reflect.Value, error) {
	return reflect.New(t.Type()).Elem(), nil
}

func (s *demoSeed3WatchSrc) Watch(_ context.Context, t *Type, args WatchArgs) error {
	s.t, s.args = t, args
	return nil
}

// With a watching source and delayed verification, a successful
// EnableVerification must hand back the installed config together with *its*
// serial: the token must be the one ViewVersion reports for that config, and
// it must be usable with RegisterCallback to catch up on later versions.
func TestDemoSeedC09_3_EnableVerificationReturnsInstalledSerial(t *testing.T) {
	ctx, cancel := context.WithCancel(context.Background())
	defer cancel()

	w := demoSeed3WatchSrc{}
	base := demoSeed3Cfg{Valid: false, Foo: "base"}
	d, err := Params[demoSeed3Cfg]{
		DelayInitialVerification: true,
	}.Config(ctx, &base, &w)
	if err != nil {
		t.Fatalf("Config failed: %s", err)
	}

	// first attempt fails (Valid == false), the delay stays in force
	if c, tok, vfErr := d.EnableVerification(ctx); vfErr == nil {
		t.Fatalf("EnableVerification unexpectedly passed: %+v %+v", c, tok)
	}

	// make the config valid (serial 1), then retry
	trueVal, one := true, "one"
	if sendErr := w.args.BlockingReportNewValue(ctx,
		reflect.ValueOf(demoSeed3PtrCfg{Valid: &trueVal, Foo: &one}).Convert(w.t.Type())); sendErr != nil {
		t.Fatalf("update rejected: %s", sendErr)
	}

	verifiedCfg, tok, vfErr := d.EnableVerification(ctx)
	if vfErr != nil {
		t.Fatalf("EnableVerification failed on a valid config: %s", vfErr)
	}
	installedCfg, installedTok := d.ViewVersion()
	if verifiedCfg != installedCfg {
		t.Errorf("EnableVerification returned config %p (%+v); installed is %p (%+v)",
			verifiedCfg, verifiedCfg, installedCfg, installedCfg)
	}
	if tok != installedTok {
		t.Errorf("EnableVerification returned serial token %+v; the installed config's token is %+v",
			tok, installedTok)
	}

	// Install another version and make sure the callback goroutine has seen it.
	seen := make(chan *demoSeed3Cfg, 1)
	unregSeen := d.RegisterCallback(ctx, installedTok, func(_ context.Context, _, nc *demoSeed3Cfg) { seen <- nc })
	two := "two"
	if sendErr := w.args.BlockingReportNewValue(ctx,
		reflect.ValueOf(demoSeed3PtrCfg{Valid: &trueVal, Foo: &two}).Convert(w.t.Type())); sendErr != nil {
		t.Fatalf("update rejected: %s", sendErr)
	}
	select {
	case nc := <-seen:
		if nc.Foo != "two" {
			t.Fatalf("unexpected config in callback: %+v", nc)
		}
	case <-time.After(2 * time.Second):
		t.Fatalf("helper callback never ran")
	}
	unregSeen(ctx)

	// Registering with the token from EnableVerification must now trigger an
	// immediate catch-up callback (verified config -> current config).
	type pair struct{ oc, nc *demoSeed3Cfg }
	catchUp := make(chan pair, 1)
	d.RegisterCallback(ctx, tok, func(_ context.Context, oc, nc *demoSeed3Cfg) { catchUp <- pair{oc, nc} })
	select {
	case p := <-catchUp:
		if p.oc != verifiedCfg || p.nc.Foo != "two" {
			t.Errorf("catch-up callback got (%+v, %+v); expected (%+v, Foo=two)", p.oc, p.nc, verifiedCfg)
		}
	case <-time.After(time.Second):
		t.Errorf("no catch-up callback when registering with the token returned by EnableVerification " +
			"(the token does not identify the verified config)")
	}
}

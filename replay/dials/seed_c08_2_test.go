// place in: . (worktree root, package dials_test)
package dials_test

import (
	"context"
	"reflect"
	"testing"
	"time"

	"github.com/vimeo/dials"
)

type demoSeedc08_2x1Cfg struct {
	Foo string
}

var (
	demoSeedc08_2x1Entered = make(chan struct{}, 1)
	demoSeedc08_2x1Gate    = make(chan struct{})
)

// Verify blocks (only for the value "block") until the test opens the gate, so
// the test can cancel the reporter's context while the monitor is mid-restack.
func (c demoSeedc08_2x1Cfg) Verify() error {
	if c.Foo == "block" {
		demoSeedc08_2x1Entered <- struct{}{}
		<-demoSeedc08_2x1Gate
	}
	return nil
}

type demoSeedc08_2x1Src struct {
	typ  *dials.Type
	args dials.WatchArgs
}

func (s *demoSeedc08_2x1Src) Value(_ context.Context, t *dials.Type) (reflect.Value, error) {
	return reflect.New(t.Type()), nil
}

func (s *demoSeedc08_2x1Src) Watch(_ context.Context, t *dials.Type, args dials.WatchArgs) error {
	s.typ, s.args = t, args
	return nil
}

func (s *demoSeedc08_2x1Src) val(foo string) reflect.Value {
	v := reflect.New(s.typ.Type())
	v.Elem().Field(0).Set(reflect.ValueOf(&foo))
	return v
}

func TestDemoSeedAbandonedBlockingReportDoesNotWedgeMonitor(t *testing.T) {
	ctx, cancel := context.WithCancel(context.Background())
	defer cancel()

	src := &demoSeedc08_2x1Src{}
	d, err := dials.Config(ctx, &demoSeedc08_2x1Cfg{Foo: "init"}, src)
	if err != nil {
		t.Fatalf("Config failed: %s", err)
	}

	// A blocking report whose caller gives up (its context is cancelled) while
	// the monitor is still busy restacking/verifying.
	rctx, rcancel := context.WithCancel(ctx)
	repErr := make(chan error, 1)
	go func() { repErr <- src.args.BlockingReportNewValue(rctx, src.val("block")) }()

	select {
	case <-demoSeedc08_2x1Entered:
	case <-time.After(5 * time.Second):
		t.Fatal("monitor never reached Verify()")
	}
	rcancel()
	select {
	case e := <-repErr:
		if e == nil {
			t.Fatal("expected an error from the abandoned blocking report")
		}
	case <-time.After(5 * time.Second):
		t.Fatal("BlockingReportNewValue did not return after its context was cancelled")
	}
	// let the monitor finish the install of the abandoned report
	close(demoSeedc08_2x1Gate)

	// The library must still install and expose new configs.
	sctx, scancel := context.WithTimeout(ctx, 2*time.Second)
	defer scancel()
	if sErr := src.args.ReportNewValue(sctx, src.val("after")); sErr != nil {
		t.Fatalf("monitor is wedged: later ReportNewValue failed: %s", sErr)
	}
	deadline := time.Now().Add(2 * time.Second)
	for d.View().Foo != "after" {
		if time.Now().After(deadline) {
			t.Fatalf("new config never installed; View().Foo = %q", d.View().Foo)
		}
		time.Sleep(time.Millisecond)
	}
}

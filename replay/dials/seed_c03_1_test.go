// place in: . (worktree root, package dials)
package dials

import (
	"context"
	"reflect"
	"runtime/debug"
	"testing"
)

// seedMapNode is a recursive node type whose only references are maps, so a
// cycle in it never passes through a pointer.
type seedMapNode map[string]seedMapNode

type seedMapCfg struct {
	Name string
	Tree seedMapNode
	Same seedMapNode
}

// TestDemoSeedMapOnlyCycle: defaults holding a map that contains itself as a
// value (a cycle through maps only) must be copied by Config: it terminates,
// the cycle stays a cycle, shared maps stay shared, and the copy is fresh.
func TestDemoSeedMapOnlyCycle(t *testing.T) {
	// fail fast instead of growing the stack to 1GB when the copier does
	// not terminate.
	defer debug.SetMaxStack(debug.SetMaxStack(32 << 20))

	root := seedMapNode{}
	child := seedMapNode{"up": root}
	root["self"] = root
	root["child"] = child
	def := &seedMapCfg{Name: "x", Tree: root, Same: root}

	d, err := Config(context.Background(), def)
	if err != nil {
		t.Fatalf("Config failed: %s", err)
	}
	got := d.View()
	mp := func(m seedMapNode) uintptr { return reflect.ValueOf(m).Pointer() }
	if mp(got.Tree) == mp(root) {
		t.Errorf("Tree map is not fresh")
	}
	if mp(got.Tree) != mp(got.Same) {
		t.Errorf("Tree and Same were the same map in the defaults, differ in result")
	}
	if mp(got.Tree["self"]) != mp(got.Tree) {
		t.Errorf("self-loop lost: Tree[self] is not Tree")
	}
	if c, ok := got.Tree["child"]; !ok || mp(c["up"]) != mp(got.Tree) {
		t.Errorf("2-cycle lost: Tree[child][up] is not Tree")
	}
	if len(got.Tree) != 2 || got.Name != "x" {
		t.Errorf("unexpected result %+v", got.Name)
	}
}

package dials

import (
	"context"
	"reflect"
	"testing"
	"time"
)

// zzDemoC05aSource is a watching source that remembers the most recent value
// it has handed to dials (either through Value or through a report).
type zzDemoC05aSource struct {
	cur  interface{}
	typ  *Type
	args WatchArgs
}

func (s *zzDemoC05aSource) Value(_ context.Context, t *Type) (reflect.Value, error) {
	return reflect.ValueOf(s.cur).Convert(t.Type()), nil
}

func (s *zzDemoC05aSource) Watch(_ context.Context, t *Type, args WatchArgs) error {
	s.typ = t
	s.args = args
	return nil
}

func (s *zzDemoC05aSource) report(ctx context.Context, v interface{}) error {
	s.cur = v
	return s.args.BlockingReportNewValue(ctx, reflect.ValueOf(v).Convert(s.typ.Type()))
}

// zzDemoC05aStatic replays a fixed value (used to build the "fresh" stack).
type zzDemoC05aStatic struct{ v interface{} }

func (s *zzDemoC05aStatic) Value(_ context.Context, t *Type) (reflect.Value, error) {
	return reflect.ValueOf(s.v).Convert(t.Type()), nil
}

// Two watching sources, each owning a different field. The LOWER-priority one
// reports a new value; the resulting view must equal a fresh stack of
// (defaults, latest value of low, latest value of high), and the serial must
// have advanced by exactly one.
func TestZZDemoC05IncrementalEqualsFreshTwoWatchers(t *testing.T) {
	type cfg struct {
		A string
		B string
		C int
	}
	type pcfg struct {
		A *string
		B *string
		C *int
	}
	str := func(s string) *string { return &s }

	ctx, cancel := context.WithTimeout(context.Background(), 10*time.Second)
	defer cancel()

	defaults := cfg{A: "defA", B: "defB", C: 7}
	low := &zzDemoC05aSource{cur: pcfg{A: str("lowA-0")}}
	high := &zzDemoC05aSource{cur: pcfg{B: str("highB-0")}}

	d, err := Config(ctx, &defaults, low, high)
	if err != nil {
		t.Fatalf("Config: %s", err)
	}

	check := func(step string, wantSerial uint64) {
		t.Helper()
		got, tok := d.ViewVersion()
		freshDefaults := cfg{A: "defA", B: "defB", C: 7}
		fd, ferr := Config(ctx, &freshDefaults,
			&zzDemoC05aStatic{v: low.cur}, &zzDemoC05aStatic{v: high.cur})
		if ferr != nil {
			t.Fatalf("%s: fresh Config: %s", step, ferr)
		}
		if want := fd.View(); !reflect.DeepEqual(got, want) {
			t.Errorf("%s: incremental view %+v != fresh stack %+v", step, *got, *want)
		}
		if tok.s != wantSerial {
			t.Errorf("%s: serial %d; want %d", step, tok.s, wantSerial)
		}
	}

	check("initial", 0)

	// the low-priority source reports (the high-priority one stays as it is)
	if err := low.report(ctx, pcfg{A: str("lowA-1")}); err != nil {
		t.Fatalf("low report: %s", err)
	}
	check("after low report", 1)

	// now the high-priority source reports
	if err := high.report(ctx, pcfg{B: str("highB-1")}); err != nil {
		t.Fatalf("high report: %s", err)
	}
	check("after high report", 2)

	// and the low one again, this time unsetting its field
	if err := low.report(ctx, pcfg{}); err != nil {
		t.Fatalf("low report 2: %s", err)
	}
	check("after low unset", 3)
}

// place in: . (the module root, package dials_test)
package dials_test

import (
	"context"
	"reflect"
	"testing"

	"github.com/vimeo/dials"
	"github.com/vimeo/dials/decoders/json"
	"github.com/vimeo/dials/sources/static"
)

// All fields of the pointed-to anonymous struct are already nil-able (slice,
// map), so its pointerified form is the very same (unnamed) struct type.
type demoSeedC012Cfg_r5c01_5 struct {
	Name   string
	Limits *struct {
		Tags   []string
		Labels map[string]string
	}
}

func demoSeedC012Default_r5c01_5() *demoSeedC012Cfg_r5c01_5 {
	c := &demoSeedC012Cfg_r5c01_5{Name: "default"}
	c.Limits = &struct {
		Tags   []string
		Labels map[string]string
	}{
		Tags:   []string{"a", "b"},
		Labels: map[string]string{"k": "v"},
	}
	return c
}

func demoSeedC012JSON_r5c01_5(s string) dials.Source {
	return &static.StringSource{Data: s, Decoder: &json.Decoder{}}
}

// One source sets only Limits.Labels; Limits.Tags was set by no source and
// must keep its default (nested structs merge field by field).
func TestDemoSeedC01AnonNilableStructPtrMergesWithDefault_r5c01_5(t *testing.T) {
	d, err := dials.Config(context.Background(), demoSeedC012Default_r5c01_5(),
		demoSeedC012JSON_r5c01_5(`{"Limits": {"Labels": {"x": "y"}}}`))
	if err != nil {
		t.Fatalf("unexpected error: %s", err)
	}
	got := d.View()
	if got.Limits == nil {
		t.Fatalf("Limits is nil")
	}
	if exp := map[string]string{"x": "y"}; !reflect.DeepEqual(got.Limits.Labels, exp) {
		t.Errorf("Limits.Labels: expected %v (set by the source); got %v", exp, got.Limits.Labels)
	}
	if exp := []string{"a", "b"}; !reflect.DeepEqual(got.Limits.Tags, exp) {
		t.Errorf("Limits.Tags: no source set it, expected default %v; got %v", exp, got.Limits.Tags)
	}
}

// Two layers set different leaves of the same nested struct; both must
// survive, starting from a nil default pointer.
func TestDemoSeedC01AnonNilableStructPtrMergesAcrossLayers_r5c01_5(t *testing.T) {
	def := &demoSeedC012Cfg_r5c01_5{Name: "default"}
	d, err := dials.Config(context.Background(), def,
		demoSeedC012JSON_r5c01_5(`{"Limits": {"Tags": ["one"]}}`),
		demoSeedC012JSON_r5c01_5(`{"Limits": {"Labels": {"x": "y"}}}`),
		demoSeedC012JSON_r5c01_5(`{}`),
	)
	if err != nil {
		t.Fatalf("unexpected error: %s", err)
	}
	got := d.View()
	if got.Limits == nil {
		t.Fatalf("Limits is nil")
	}
	if exp := []string{"one"}; !reflect.DeepEqual(got.Limits.Tags, exp) {
		t.Errorf("Limits.Tags: expected %v (last set by layer 1); got %v", exp, got.Limits.Tags)
	}
	if exp := map[string]string{"x": "y"}; !reflect.DeepEqual(got.Limits.Labels, exp) {
		t.Errorf("Limits.Labels: expected %v (set by layer 2); got %v", exp, got.Limits.Labels)
	}
	if got.Name != "default" {
		t.Errorf("Name: expected default; got %q", got.Name)
	}
}

// Drop this file into the repository root (package dials, next to dials.go)
// as zz_demo_test.go and run:
//
//	go test -vet=off -count=1 -run TestZZDemoBlockedCallbackDoesNotStallInstalls -timeout 120s .
//
// Property C08: a callback that blocks forever must not stop new configs from
// being installed and viewed.
package dials

import (
	"context"
	"reflect"
	"testing"
	"time"
)

type zzDemoCfg struct {
	Gen int
}

type zzDemoPtrCfg struct {
	Gen *int
}

// zzDemoWatcher is a minimal watching source.
type zzDemoWatcher struct {
	typ  *Type
	args WatchArgs
}

func (z *zzDemoWatcher) Value(_ context.Context, t *Type) (reflect.Value, error) {
	return reflect.ValueOf(zzDemoPtrCfg{}).Convert(t.Type()), nil
}

func (z *zzDemoWatcher) Watch(_ context.Context, t *Type, args WatchArgs) error {
	z.typ = t
	z.args = args
	return nil
}

func TestZZDemoBlockedCallbackDoesNotStallInstalls(t *testing.T) {
	ctx, cancel := context.WithCancel(context.Background())
	defer cancel()

	// never closed before the end of the test: the callback blocks "forever"
	release := make(chan struct{})
	defer close(release)

	w := &zzDemoWatcher{}
	p := Params[zzDemoCfg]{
		OnNewConfig: func(ctx context.Context, oldConfig, newConfig *zzDemoCfg) {
			<-release
		},
	}
	d, err := p.Config(ctx, &zzDemoCfg{}, w)
	if err != nil {
		t.Fatalf("Config failed: %s", err)
	}

	// More updates than the callback queue can hold (1 in flight in the
	// blocked callback + cap(d.cbch) queued + a few more).
	total := cap(d.cbch) + 16
	for i := 1; i <= total; i++ {
		gen := i
		val := reflect.ValueOf(zzDemoPtrCfg{Gen: &gen}).Convert(w.typ.Type())

		repCtx, repCancel := context.WithTimeout(ctx, 3*time.Second)
		repErr := w.args.BlockingReportNewValue(repCtx, val)
		repCancel()
		if repErr != nil {
			t.Fatalf("update %d of %d was not installed while a callback is blocked: %s (View().Gen = %d)",
				i, total, repErr, d.View().Gen)
		}
		if got := d.View().Gen; got != i {
			t.Fatalf("after installing update %d, View().Gen = %d", i, got)
		}
	}
}

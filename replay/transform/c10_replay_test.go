package transform

// Replay tests for obligations of the manglers in package transform (C10, C16).  Injected with `go test -overlay`.

import (
	"reflect"
	"testing"
)

type RpEmb struct {
	A *int
	b int //nolint:unused
}

// unmangleStruct indexes the value list once more after the last exported field when an unexported field follows
func TestReplay_C10_EmbeddedStructWithTrailingUnexportedField(t *testing.T) {
	type cfg struct {
		RpEmb
		X *int
	}
	tfm := NewTransformer(reflect.TypeOf(cfg{}), AnonymousFlattenMangler{})
	v, err := tfm.Translate()
	if err != nil {
		t.Fatal(err)
	}
	one := 1
	v.Field(0).Set(reflect.ValueOf(&one))
	out, err := tfm.ReverseTranslate(v)
	if err != nil {
		t.Fatal(err)
	}
	got := out.Interface().(cfg)
	if got.A == nil || *got.A != 1 || got.X != nil {
		t.Errorf("got %+v", got)
	}
}

// place in: transform/
package transform

import (
	"reflect"
	"testing"
)

// demoSeedC101RoundTrip translates typ with the given manglers, lets fill write
// into the translated value and reverse-translates it. Panics are turned into
// test failures so the failure mode is readable.
func demoSeedC101RoundTrip_r5c10_4(t *testing.T, typ reflect.Type, fill func(reflect.Value), ms ...Mangler) (out reflect.Value) {
	t.Helper()
	defer func() {
		if r := recover(); r != nil {
			t.Fatalf("round trip of %s panicked: %v", typ, r)
		}
	}()
	tfmr := NewTransformer(typ, ms...)
	val, err := tfmr.Translate()
	if err != nil {
		t.Fatalf("translate of %s failed: %v", typ, err)
	}
	if fill != nil {
		fill(val)
	}
	out, err = tfmr.ReverseTranslate(val)
	if err != nil {
		t.Fatalf("reverse translate of %s failed: %v", typ, err)
	}
	if out.Type() != typ {
		t.Fatalf("reverse translate returned type %s; want %s", out.Type(), typ)
	}
	return out
}

// An embedded struct that mixes an unexported bookkeeping field with exported
// config leaves must be hoisted (exported leaves only) and restored.
func TestDemoSeedC101AnonymousFlattenEmbeddedWithUnexportedField_r5c10_4(t *testing.T) {
	// local types: the embedded field's name must be exported to be considered
	type Embedded struct {
		hits int //nolint:unused
		A    *int
		B    *string
	}
	type cfgVal struct {
		Embedded
		C *int
	}
	type cfgPtr struct {
		*Embedded
		C *int
	}

	for _, typ := range []reflect.Type{reflect.TypeOf(cfgVal{}), reflect.TypeOf(cfgPtr{})} {
		for _, chain := range [][]Mangler{
			{AnonymousFlattenMangler{}},
			{AnonymousFlattenMangler{}, &SetSliceMangler{}},
		} {
			// the translated type must only have the exported leaves
			tt, err := NewTransformer(typ, chain...).TranslateType()
			if err != nil {
				t.Fatalf("translate type: %v", err)
			}
			names := []string{}
			for i := 0; i < tt.NumField(); i++ {
				names = append(names, tt.Field(i).Name)
			}
			if want := []string{"A", "B", "C"}; !reflect.DeepEqual(names, want) {
				t.Errorf("%s (chain of %d): translated fields %v; want %v", typ, len(chain), names, want)
			}

			// empty translated value reverses to an unset original
			empty := demoSeedC101RoundTrip_r5c10_4(t, typ, nil, chain...)
			if !empty.IsZero() {
				t.Errorf("%s: empty translated value reversed to non-zero %+v", typ, empty)
			}

			// fill A and C only
			a, c := 17, 99
			out := demoSeedC101RoundTrip_r5c10_4(t, typ, func(v reflect.Value) {
				v.FieldByName("A").Set(reflect.ValueOf(&a))
				v.FieldByName("C").Set(reflect.ValueOf(&c))
			}, chain...)
			emb := out.Field(0)
			if emb.Kind() == reflect.Pointer {
				if emb.IsNil() {
					t.Fatalf("%s: embedded pointer nil although A was filled", typ)
				}
				emb = emb.Elem()
			}
			if pa := emb.FieldByName("A"); pa.IsNil() || pa.Elem().Int() != 17 {
				t.Errorf("%s: A not restored: %v", typ, pa)
			}
			if pb := emb.FieldByName("B"); !pb.IsNil() {
				t.Errorf("%s: B should be unset, got %v", typ, pb)
			}
			if pc := out.FieldByName("C"); pc.IsNil() || pc.Elem().Int() != 99 {
				t.Errorf("%s: C not restored: %v", typ, pc)
			}
		}
	}
}

// place in: transform/
package transform

import (
	"reflect"
	"testing"

	"github.com/vimeo/dials/ptrify"
)

// C10: a leaf that was explicitly written in the translated struct (here: an
// explicitly-empty set, e.g. `tags: []` in a config file) must come back as a
// *set* leaf holding the written value (an empty, non-nil set), while a leaf
// that was not written must come back unset (nil).
func TestDemoSeedSetSliceEmptySetIsNotUnset(t *testing.T) {
	type inner struct {
		Allowed map[string]struct{}
	}
	type config struct {
		Name    string
		Tags    map[string]struct{}
		Ports   map[int]struct{}
		Nested  inner
		Untouch map[string]struct{}
	}

	cfgType := reflect.TypeOf(config{})
	ptrType := ptrify.Pointerify(cfgType, reflect.New(cfgType).Elem())

	tfmr := NewTransformer(ptrType, &SetSliceMangler{})
	val, err := tfmr.Translate()
	if err != nil {
		t.Fatalf("translate: %s", err)
	}

	// translated type must have []string / []int in place of the sets
	if got := val.FieldByName("Tags").Type(); got != reflect.TypeOf([]string{}) {
		t.Fatalf("unexpected translated type for Tags: %s", got)
	}

	// Fill a subset of the fields: Tags is explicitly set to the empty set,
	// Ports to a non-empty one, the nested one to empty; Untouch stays unset.
	val.FieldByName("Tags").Set(reflect.ValueOf([]string{}))
	val.FieldByName("Ports").Set(reflect.ValueOf([]int{80, 443, 80}))
	nested := reflect.New(val.FieldByName("Nested").Type().Elem())
	nested.Elem().FieldByName("Allowed").Set(reflect.ValueOf(make([]string, 0, 4)))
	val.FieldByName("Nested").Set(nested)

	rev, err := tfmr.ReverseTranslate(val)
	if err != nil {
		t.Fatalf("reverse translate: %s", err)
	}
	if rev.Type() != ptrType {
		t.Fatalf("reverse-translated type %s; expected %s", rev.Type(), ptrType)
	}

	if n := rev.FieldByName("Name"); !n.IsNil() {
		t.Errorf("Name was never written, expected nil; got %v", n)
	}
	if u := rev.FieldByName("Untouch"); !u.IsNil() {
		t.Errorf("Untouch was never written, expected nil map; got %v", u)
	}

	ports, ok := rev.FieldByName("Ports").Interface().(map[int]struct{})
	if !ok || !reflect.DeepEqual(ports, map[int]struct{}{80: {}, 443: {}}) {
		t.Errorf("Ports: got %#v", rev.FieldByName("Ports").Interface())
	}

	tags := rev.FieldByName("Tags")
	if tags.IsNil() {
		t.Errorf("Tags was written as an empty set, but reverse-translated to an unset (nil) map")
	} else if tags.Len() != 0 {
		t.Errorf("Tags: expected empty set; got %v", tags)
	}

	revNested := rev.FieldByName("Nested")
	if revNested.IsNil() {
		t.Fatalf("Nested was written; got nil")
	}
	allowed := revNested.Elem().FieldByName("Allowed")
	if allowed.IsNil() {
		t.Errorf("Nested.Allowed was written as an empty set, but reverse-translated to an unset (nil) map")
	} else if allowed.Len() != 0 {
		t.Errorf("Nested.Allowed: expected empty set; got %v", allowed)
	}
}

// place in: transform/
package transform

import (
	"reflect"
	"testing"

	"github.com/vimeo/dials/ptrify"
)

// DemoSeedLimits is embedded in the demo config below; all of its fields are
// slices/maps, which pointerification leaves as-is (they're already nilable).
type DemoSeedLimits struct {
	AllowedHosts []string
	Labels       map[string]string
}

// C10: an empty translated value must reverse to an entirely unset original
// (so that a source which found nothing never clobbers lower layers), and
// leaves that were not written must stay unset.
func TestDemoSeedAnonymousFlattenEmptyStaysUnset(t *testing.T) {
	type config struct {
		Name string
		DemoSeedLimits
	}

	cfgType := reflect.TypeOf(config{})
	ptrType := ptrify.Pointerify(cfgType, reflect.New(cfgType).Elem())

	tfmr := NewTransformer(ptrType, AnonymousFlattenMangler{})
	val, err := tfmr.Translate()
	if err != nil {
		t.Fatalf("translate: %s", err)
	}
	for _, n := range []string{"Name", "AllowedHosts", "Labels"} {
		if _, ok := val.Type().FieldByName(n); !ok {
			t.Fatalf("translated type %s lacks hoisted field %q", val.Type(), n)
		}
	}

	// 1) nothing filled at all
	rev, err := tfmr.ReverseTranslate(val)
	if err != nil {
		t.Fatalf("reverse translate (empty): %s", err)
	}
	if rev.Type() != ptrType {
		t.Fatalf("reverse-translated type %s; expected %s", rev.Type(), ptrType)
	}
	for i := 0; i < rev.NumField(); i++ {
		if !rev.Field(i).IsNil() {
			t.Errorf("empty translated value: field %q should be unset (nil); got %+v",
				rev.Type().Field(i).Name, rev.Field(i).Interface())
		}
	}
	if !rev.IsZero() {
		t.Errorf("empty translated value did not reverse to an entirely unset original: %+v", rev.Interface())
	}

	// 2) only Name filled: the embedded struct must remain unset
	name := "fizzlebat"
	val.FieldByName("Name").Set(reflect.ValueOf(&name))
	rev, err = tfmr.ReverseTranslate(val)
	if err != nil {
		t.Fatalf("reverse translate (Name only): %s", err)
	}
	if n := rev.FieldByName("Name"); n.IsNil() || n.Elem().String() != name {
		t.Errorf("Name: expected %q; got %v", name, n)
	}
	if l := rev.FieldByName("DemoSeedLimits"); !l.IsNil() {
		t.Errorf("only Name was written; embedded DemoSeedLimits should be nil; got %+v", l.Interface())
	}

	// 3) sanity: filling one hoisted field populates the embedded struct
	val.FieldByName("Labels").Set(reflect.ValueOf(map[string]string{"a": "b"}))
	rev, err = tfmr.ReverseTranslate(val)
	if err != nil {
		t.Fatalf("reverse translate (Name+Labels): %s", err)
	}
	l := rev.FieldByName("DemoSeedLimits")
	if l.IsNil() {
		t.Fatalf("Labels was written; embedded DemoSeedLimits should be non-nil")
	}
	if got := l.Elem().FieldByName("Labels").Interface(); !reflect.DeepEqual(got, map[string]string{"a": "b"}) {
		t.Errorf("Labels: got %v", got)
	}
	if ah := l.Elem().FieldByName("AllowedHosts"); !ah.IsNil() {
		t.Errorf("AllowedHosts was never written; expected nil, got %v", ah)
	}
}

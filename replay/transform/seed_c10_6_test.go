// place in: transform/
package transform

import (
	"reflect"
	"testing"
)

// demoSeedC103Void is a named empty struct, a common way to spell set members.
type demoSeedC103Void_r5c10_6 struct{}

type demoSeedC103Inner_r5c10_6 struct {
	Marks map[int]demoSeedC103Void_r5c10_6
}

type demoSeedC103Cfg_r5c10_6 struct {
	Name   *string
	Plain  map[string]struct{}
	Seen   map[string]demoSeedC103Void_r5c10_6
	Nested *demoSeedC103Inner_r5c10_6
}

// demoSeedC103FillSet writes the members into a translated set field, whichever
// representation (slice or map) the translation chose for it.
func demoSeedC103FillSet_r5c10_6(t *testing.T, f reflect.Value, origType reflect.Type, members ...interface{}) {
	t.Helper()
	switch f.Kind() {
	case reflect.Slice:
		s := reflect.MakeSlice(f.Type(), 0, len(members))
		for _, m := range members {
			s = reflect.Append(s, reflect.ValueOf(m))
		}
		f.Set(s)
	case reflect.Map:
		mp := reflect.MakeMap(f.Type())
		for _, m := range members {
			mp.SetMapIndex(reflect.ValueOf(m), reflect.Zero(f.Type().Elem()))
		}
		f.Set(mp)
	default:
		t.Fatalf("translated counterpart of %s has unexpected type %s", origType, f.Type())
	}
}

func TestDemoSeedC103SetSliceNamedEmptyStructSet_r5c10_6(t *testing.T) {
	chains := map[string][]Mangler{
		"set-slice":       {&SetSliceMangler{}},
		"alias+set-slice": {NewAliasMangler("dials"), &SetSliceMangler{}},
	}
	for name, chain := range chains {
		t.Run(name+"/empty", func(t *testing.T) {
			tfmr := NewTransformer(reflect.TypeOf(demoSeedC103Cfg_r5c10_6{}), chain...)
			val, err := tfmr.Translate()
			if err != nil {
				t.Fatalf("translate failed: %v", err)
			}
			out, err := tfmr.ReverseTranslate(val)
			if err != nil {
				t.Fatalf("reverse translate of the empty translated value failed: %v", err)
			}
			if !reflect.DeepEqual(out.Interface(), demoSeedC103Cfg_r5c10_6{}) {
				t.Errorf("empty translated value reversed to %+v", out.Interface())
			}
		})
		t.Run(name+"/filled", func(t *testing.T) {
			tfmr := NewTransformer(reflect.TypeOf(demoSeedC103Cfg_r5c10_6{}), chain...)
			val, err := tfmr.Translate()
			if err != nil {
				t.Fatalf("translate failed: %v", err)
			}
			demoSeedC103FillSet_r5c10_6(t, val.FieldByName("Plain"), reflect.TypeOf(map[string]struct{}{}), "p")
			demoSeedC103FillSet_r5c10_6(t, val.FieldByName("Seen"), reflect.TypeOf(map[string]demoSeedC103Void_r5c10_6{}), "a", "b")
			nested := reflect.New(val.FieldByName("Nested").Type().Elem())
			demoSeedC103FillSet_r5c10_6(t, nested.Elem().FieldByName("Marks"), reflect.TypeOf(map[int]demoSeedC103Void_r5c10_6{}), 3, 5)
			val.FieldByName("Nested").Set(nested)

			out, err := tfmr.ReverseTranslate(val)
			if err != nil {
				t.Fatalf("reverse translate failed: %v", err)
			}
			want := demoSeedC103Cfg_r5c10_6{
				Plain:  map[string]struct{}{"p": {}},
				Seen:   map[string]demoSeedC103Void_r5c10_6{"a": {}, "b": {}},
				Nested: &demoSeedC103Inner_r5c10_6{Marks: map[int]demoSeedC103Void_r5c10_6{3: {}, 5: {}}},
			}
			if !reflect.DeepEqual(out.Interface(), want) {
				t.Errorf("round trip mismatch:\n got %+v\nwant %+v", out.Interface(), want)
			}
		})
	}
}

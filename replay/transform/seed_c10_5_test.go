// place in: transform/
package transform

import (
	"reflect"
	"testing"
	"time"
)

// demoSeedC102Chains are recursing manglers that leave a time.Time leaf alone.
func demoSeedC102Chains_r5c10_5() map[string][]Mangler {
	return map[string][]Mangler{
		"set-slice":       {&SetSliceMangler{}},
		"alias":           {NewAliasMangler("dials")},
		"alias+set-slice": {NewAliasMangler("dials"), &SetSliceMangler{}},
		"anon-flatten":    {AnonymousFlattenMangler{}},
	}
}

// A struct-typed leaf whose UnmarshalText has a pointer receiver (time.Time)
// and that is held by value must survive translate/fill/reverse untouched.
func TestDemoSeedC102ValueTextUnmarshalerStructLeaf_r5c10_5(t *testing.T) {
	type cfg struct {
		Name    *string
		When    time.Time
		WhenPtr *time.Time
		Tags    map[string]struct{}
	}
	timeType := reflect.TypeOf(time.Time{})
	when := time.Date(2021, time.March, 4, 5, 6, 7, 0, time.UTC)

	for name, chain := range demoSeedC102Chains_r5c10_5() {
		t.Run(name, func(t *testing.T) {
			tfmr := NewTransformer(reflect.TypeOf(cfg{}), chain...)
			val, err := tfmr.Translate()
			if err != nil {
				t.Fatalf("translate failed: %v", err)
			}
			f := val.FieldByName("When")
			if !f.IsValid() {
				t.Fatalf("translated type %s lost field When", val.Type())
			}
			if f.Type() != timeType {
				t.Fatalf("translated type of When is %s; want %s (leaf must not be recursed into)", f.Type(), timeType)
			}
			f.Set(reflect.ValueOf(when))
			val.FieldByName("WhenPtr").Set(reflect.ValueOf(&when))

			out, err := tfmr.ReverseTranslate(val)
			if err != nil {
				t.Fatalf("reverse translate failed: %v", err)
			}
			got, ok := out.Interface().(cfg)
			if !ok {
				t.Fatalf("reverse translate returned %s; want %T", out.Type(), cfg{})
			}
			if !got.When.Equal(when) {
				t.Errorf("When = %v; want %v", got.When, when)
			}
			if got.WhenPtr == nil || !got.WhenPtr.Equal(when) {
				t.Errorf("WhenPtr = %v; want %v", got.WhenPtr, when)
			}
			if got.Name != nil || got.Tags != nil {
				t.Errorf("unfilled leaves were set: %+v", got)
			}
		})
	}
}

// place in: transform/
package transform

import (
	"reflect"
	"testing"
	"time"

	"github.com/vimeo/dials/ptrify"
)

// C10: filling any subset of the flattened fields and reverse-translating
// must give back each written leaf. Here the subset is "a leaf that precedes
// an (entirely unset) nested struct inside the same parent struct".
func TestDemoSeedFlattenLeafBeforeUnsetNestedStruct(t *testing.T) {
	type tlsConfig struct {
		Cert string
		Key  string
	}
	type dbConfig struct {
		Host    string
		Timeout time.Duration
		TLS     tlsConfig
	}
	type config struct {
		Name string
		DB   dbConfig
	}

	cfgType := reflect.TypeOf(config{})
	ptrType := ptrify.Pointerify(cfgType, reflect.New(cfgType).Elem())

	tfmr := NewTransformer(ptrType, DefaultFlattenMangler())
	val, err := tfmr.Translate()
	if err != nil {
		t.Fatalf("translate: %s", err)
	}

	// index the flattened fields by their original field-path
	byPath := map[string]reflect.Value{}
	for i := 0; i < val.NumField(); i++ {
		byPath[val.Type().Field(i).Tag.Get(dialsFieldPathTag)] = val.Field(i)
	}
	for _, p := range []string{"Name", "DB,Host", "DB,Timeout", "DB,TLS,Cert", "DB,TLS,Key"} {
		if _, ok := byPath[p]; !ok {
			t.Fatalf("flattened struct %s lacks a field for path %q", val.Type(), p)
		}
	}

	// Only DB.Host and DB.Timeout are provided (e.g. --db-host=... on the
	// command-line), nothing under DB.TLS.
	host := "db.example.com"
	timeout := 3 * time.Second
	byPath["DB,Host"].Set(reflect.ValueOf(&host))
	byPath["DB,Timeout"].Set(reflect.ValueOf(&timeout))

	rev, err := tfmr.ReverseTranslate(val)
	if err != nil {
		t.Fatalf("reverse translate: %s", err)
	}
	if rev.Type() != ptrType {
		t.Fatalf("reverse-translated type %s; expected %s", rev.Type(), ptrType)
	}

	if n := rev.FieldByName("Name"); !n.IsNil() {
		t.Errorf("Name was never written; expected nil, got %v", n.Elem())
	}

	db := rev.FieldByName("DB")
	if db.IsNil() {
		t.Fatalf("DB.Host and DB.Timeout were written, but DB reverse-translated to nil (written leaves lost)")
	}
	gotHost := db.Elem().FieldByName("Host")
	if gotHost.IsNil() || gotHost.Elem().String() != host {
		t.Errorf("DB.Host: expected %q; got %v", host, gotHost)
	}
	gotTimeout := db.Elem().FieldByName("Timeout")
	if gotTimeout.IsNil() || gotTimeout.Elem().Interface() != timeout {
		t.Errorf("DB.Timeout: expected %s; got %v", timeout, gotTimeout)
	}
	if tls := db.Elem().FieldByName("TLS"); !tls.IsNil() {
		t.Errorf("DB.TLS was never written; expected nil, got %v", tls.Elem())
	}
}

// place in: decoders/json/
package json

import (
	"context"
	"fmt"
	"strings"
	"testing"

	"github.com/vimeo/dials"
	"github.com/vimeo/dials/sources/static"
)

// No JSON file content may make the decoder panic: for a config with a slice
// of nested structs, every number of list entries must decode to a value (or
// yield an error).
func TestDemoSeedC16_3_SliceOfStructsAnyLength(t *testing.T) {
	type backend struct {
		Host string `dials:"host"`
		Port int    `dials:"port"`
	}
	type config struct {
		Name     string    `dials:"name"`
		Backends []backend `dials:"backends"`
	}

	for n := 0; n <= 9; n++ {
		items := make([]string, n)
		for i := range items {
			items[i] = fmt.Sprintf(`{"host": "h%d", "port": %d}`, i, 8000+i)
		}
		jsonData := `{"name": "x", "backends": [` + strings.Join(items, ", ") + `]}`

		func() {
			defer func() {
				if r := recover(); r != nil {
					t.Errorf("%d backends: Decode panicked: %v", n, r)
				}
			}()
			cfg := &config{}
			d, err := dials.Config(context.Background(), cfg,
				&static.StringSource{Data: jsonData, Decoder: &Decoder{}})
			if err != nil {
				t.Logf("%d backends: error (acceptable): %v", n, err)
				return
			}
			got := d.View().Backends
			if len(got) != n {
				t.Errorf("%d backends: decoded %d entries", n, len(got))
			}
		}()
	}
}

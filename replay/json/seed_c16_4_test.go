// place in: decoders/json/
package json

import (
	"fmt"
	"reflect"
	"strings"
	"testing"
	"time"

	"github.com/vimeo/dials"
	"github.com/vimeo/dials/ptrify"
)

// demoSeedC161Config has user-declared pointers to containers of
// time.Duration (the JSON decoder substitutes time.Duration by a parsing type
// and converts back after decoding).
type demoSeedC161Config_r5c16_4 struct {
	Name     string
	Timeouts *[]time.Duration
	Limits   *map[string]time.Duration
}

func demoSeedC161Decode_r5c16_4(in string) (val reflect.Value, err error, panicked interface{}) {
	defer func() {
		if r := recover(); r != nil {
			panicked = r
		}
	}()
	typ := ptrify.Pointerify(reflect.TypeOf(demoSeedC161Config_r5c16_4{}), reflect.ValueOf(demoSeedC161Config_r5c16_4{}))
	val, err = (&Decoder{}).Decode(strings.NewReader(in), dials.NewType(typ))
	return val, err, nil
}

// A JSON document that leaves the pointer fields unset must decode to a value
// (with nil pointers) or an error; it must not panic.
func TestDemoSeedC16_1_UnsetPointerToDurationContainer_r5c16_4(t *testing.T) {
	for _, in := range []string{`{}`, `{"Name": "x"}`, `{"Timeouts": null, "Limits": null}`} {
		val, err, panicked := demoSeedC161Decode_r5c16_4(in)
		if panicked != nil {
			t.Errorf("input %s: Decode panicked: %v", in, panicked)
			continue
		}
		if err != nil {
			// an error is an acceptable outcome for the property
			t.Logf("input %s: error %v", in, err)
			continue
		}
		if !val.FieldByName("Timeouts").IsNil() || !val.FieldByName("Limits").IsNil() {
			t.Errorf("input %s: expected unset pointers, got %s", in, fmt.Sprint(val))
		}
	}
}

// place in: sources/flag/
package flag

import (
	"context"
	"flag"
	"io"
	"strings"
	"testing"

	"github.com/vimeo/dials"
)

type demoSeedC14x3DB struct {
	Addr    string `dials:"addr" dialsalias:"address"`
	Timeout int    `dials:"timeout"`
}

type demoSeedC14x3Cfg struct {
	Name    string          `dials:"name" dialsalias:"title"`
	Primary demoSeedC14x3DB `dials:"primary"`
	Replica demoSeedC14x3DB `dials:"replica"`
}

func demoSeedC14x3Load(t *testing.T, args ...string) (*demoSeedC14x3Cfg, error) {
	t.Helper()
	fs := flag.NewFlagSet("demo", flag.ContinueOnError)
	fs.SetOutput(io.Discard)
	src := &Set{
		Flags:     fs,
		ParseFunc: func() error { return fs.Parse(args) },
	}
	d, err := dials.Config(context.Background(), &demoSeedC14x3Cfg{}, src)
	if err != nil {
		return nil, err
	}
	return d.View(), nil
}

func TestDemoSeedC14NestedAliasFlags(t *testing.T) {
	t.Run("top_level_alias", func(t *testing.T) {
		c, err := demoSeedC14x3Load(t, "-title=x")
		if err != nil {
			t.Fatalf("unexpected error: %s", err)
		}
		if c.Name != "x" {
			t.Errorf("Name = %q; want x", c.Name)
		}
	})
	t.Run("nested_primary", func(t *testing.T) {
		c, err := demoSeedC14x3Load(t, "-primary-addr=p:1", "-replica-addr=r:1")
		if err != nil {
			t.Fatalf("unexpected error: %s", err)
		}
		if c.Primary.Addr != "p:1" || c.Replica.Addr != "r:1" {
			t.Errorf("unexpected config %+v", *c)
		}
	})
	// the alias of a nested field lives under the same prefix as its primary name
	t.Run("nested_alias", func(t *testing.T) {
		c, err := demoSeedC14x3Load(t, "-primary-address=p:2")
		if err != nil {
			t.Fatalf("unexpected error: %s", err)
		}
		if c.Primary.Addr != "p:2" {
			t.Errorf("Primary.Addr = %q; want p:2", c.Primary.Addr)
		}
		if c.Replica.Addr != "" {
			t.Errorf("Replica.Addr = %q; want it left unset", c.Replica.Addr)
		}
	})
	t.Run("nested_alias_second_struct", func(t *testing.T) {
		c, err := demoSeedC14x3Load(t, "-replica-address=r:2", "-primary-addr=p:1")
		if err != nil {
			t.Fatalf("unexpected error: %s", err)
		}
		if c.Primary.Addr != "p:1" || c.Replica.Addr != "r:2" {
			t.Errorf("unexpected config %+v", *c)
		}
	})
	t.Run("nested_both", func(t *testing.T) {
		_, err := demoSeedC14x3Load(t, "-replica-address=r:2", "-replica-addr=r:1")
		if err == nil {
			t.Fatalf("expected an error when both replica-addr and replica-address are given")
		}
		if !strings.Contains(err.Error(), "Addr") {
			t.Errorf("error does not name the field: %s", err)
		}
	})
	// setting the alias of one nested struct and the primary name of its
	// sibling is not a conflict
	t.Run("nested_alias_and_sibling_primary", func(t *testing.T) {
		c, err := demoSeedC14x3Load(t, "-primary-address=p:2", "-replica-addr=r:1")
		if err != nil {
			t.Fatalf("unexpected error: %s", err)
		}
		if c.Primary.Addr != "p:2" || c.Replica.Addr != "r:1" {
			t.Errorf("unexpected config %+v", *c)
		}
	})
}

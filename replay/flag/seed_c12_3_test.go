// place in: sources/flag/
package flag

import (
	"strconv"
	"testing"
)

// The default advertised by each registered flag (flag.Flag.DefValue, which is
// what -help / PrintDefaults shows) must be the template's value for the leaf.
func TestDemoSeedUint32AdvertisedDefault(t *testing.T) {
	type timeouts struct {
		MaxBytes uint32
	}
	type cfg struct {
		Small    uint32
		Big      uint32
		Port     uint16
		Timeouts timeouts
	}
	tmpl := cfg{
		Small:    4,
		Big:      100000,
		Port:     65535,
		Timeouts: timeouts{MaxBytes: 1 << 20},
	}
	s, setupErr := NewSetWithArgs(DefaultFlagNameConfig(), &tmpl, []string{})
	if setupErr != nil {
		t.Fatalf("failed to set up Set: %s", setupErr)
	}
	for name, want := range map[string]uint64{
		"small":              uint64(tmpl.Small),
		"big":                uint64(tmpl.Big),
		"port":               uint64(tmpl.Port),
		"timeouts-max-bytes": uint64(tmpl.Timeouts.MaxBytes),
	} {
		f := s.Flags.Lookup(name)
		if f == nil {
			t.Errorf("flag %q not registered", name)
			continue
		}
		if f.DefValue != strconv.FormatUint(want, 10) {
			t.Errorf("flag %q advertises default %q; template value is %d", name, f.DefValue, want)
		}
	}
}

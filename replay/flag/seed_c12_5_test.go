// place in: sources/flag/
package flag

import (
	"context"
	"math"
	"testing"
	"time"

	"github.com/vimeo/dials"
)

type seedC122Ratio_r7c12_5 float32

type seedC122Config_r7c12_5 struct {
	Weight  float32
	Sampled struct {
		Ratio seedC122Ratio_r7c12_5
	}
	Name string
}

// A float32 leaf is backed by a float64 flag in the standard-library source,
// so a value that does not fit a float32 has to be rejected instead of being
// narrowed (to +Inf) silently.
func TestDemoSeedC12Float32OutOfRangeIsAnError_r7c12_5(t *testing.T) {
	for _, tc := range []struct {
		name string
		args []string
	}{
		{name: "plain_float32", args: []string{"-weight=1e300"}},
		{name: "named_float32_nested", args: []string{"-name=x", "-sampled-ratio=-4e38"}},
	} {
		tc := tc
		t.Run(tc.name, func(t *testing.T) {
			ctx, cancel := context.WithTimeout(context.Background(), 10*time.Second)
			defer cancel()

			tmpl := seedC122Config_r7c12_5{Weight: 0.5, Name: "n"}
			tmpl.Sampled.Ratio = 0.25
			s, setupErr := NewSetWithArgs(DefaultFlagNameConfig(), &tmpl, tc.args)
			if setupErr != nil {
				t.Fatalf("failed to set up Set: %s", setupErr)
			}
			d, cfgErr := dials.Config(ctx, &tmpl, s)
			if cfgErr == nil {
				got := d.View()
				t.Errorf("expected an overflow error for args %q; got config %+v (Weight inf: %t, Ratio inf: %t)",
					tc.args, *got, math.IsInf(float64(got.Weight), 0), math.IsInf(float64(got.Sampled.Ratio), 0))
			}
		})
	}
}

// in-range values keep working (sanity check for the demo itself)
func TestDemoSeedC12Float32InRangeIsAccepted_r7c12_5(t *testing.T) {
	ctx, cancel := context.WithTimeout(context.Background(), 10*time.Second)
	defer cancel()

	tmpl := seedC122Config_r7c12_5{Weight: 0.5, Name: "n"}
	s, setupErr := NewSetWithArgs(DefaultFlagNameConfig(), &tmpl, []string{"-weight=2.5", "-sampled-ratio=3e38"})
	if setupErr != nil {
		t.Fatalf("failed to set up Set: %s", setupErr)
	}
	d, cfgErr := dials.Config(ctx, &tmpl, s)
	if cfgErr != nil {
		t.Fatalf("unexpected error: %s", cfgErr)
	}
	got := d.View()
	if got.Weight != 2.5 || got.Sampled.Ratio != 3e38 || got.Name != "n" {
		t.Errorf("unexpected config %+v", *got)
	}
}

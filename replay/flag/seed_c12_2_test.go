// place in: sources/flag/
package flag

import (
	"context"
	"reflect"
	"testing"

	"github.com/vimeo/dials"
)

type demoSeedLowerLayer struct {
	port    int
	verbose bool
}

// Value implements dials.Source: a lower-priority layer (think: config file)
// that sets both leaves.
func (l *demoSeedLowerLayer) Value(_ context.Context, t *dials.Type) (reflect.Value, error) {
	v := reflect.New(t.Type()).Elem()
	p, vb := l.port, l.verbose
	v.FieldByName("Port").Set(reflect.ValueOf(&p))
	v.FieldByName("Verbose").Set(reflect.ValueOf(&vb))
	return v, nil
}

// A flag that appears on the command line must set its leaf to the parsed
// value even when that value happens to be equal to the template default;
// flags that do not appear must leave lower layers visible.
func TestDemoSeedFlagExplicitlySetToDefault(t *testing.T) {
	type cfg struct {
		Port    int
		Verbose bool
		Name    string
	}
	tmpl := cfg{Port: 8080, Verbose: false, Name: "tmpl"}
	s, setupErr := NewSetWithArgs(DefaultFlagNameConfig(), &tmpl,
		[]string{"-port=8080", "-verbose=false"})
	if setupErr != nil {
		t.Fatalf("failed to set up Set: %s", setupErr)
	}

	// direct check of the source's output: exactly the two flags given are set.
	typ := dials.NewType(s.ptrType)
	v, err := s.Value(context.Background(), typ)
	if err != nil {
		t.Fatalf("Value failed: %s", err)
	}
	if f := v.FieldByName("Port"); f.IsNil() {
		t.Errorf("-port=8080 was on the command line, but the Port leaf is unset")
	} else if got := f.Elem().Int(); got != 8080 {
		t.Errorf("Port = %d; want 8080", got)
	}
	if f := v.FieldByName("Verbose"); f.IsNil() {
		t.Errorf("-verbose=false was on the command line, but the Verbose leaf is unset")
	}
	if f := v.FieldByName("Name"); !f.IsNil() {
		t.Errorf("-name was not on the command line, but the Name leaf is set to %q", f.Elem().String())
	}
}

// Same thing end-to-end: the flags sit on top of a lower layer that disagrees
// with the template defaults.
func TestDemoSeedFlagExplicitlySetToDefaultStacked(t *testing.T) {
	type cfg struct {
		Port    int
		Verbose bool
	}
	tmpl := cfg{Port: 8080, Verbose: false}
	s, setupErr := NewSetWithArgs(DefaultFlagNameConfig(), &tmpl,
		[]string{"-port=8080", "-verbose=false"})
	if setupErr != nil {
		t.Fatalf("failed to set up Set: %s", setupErr)
	}
	d, err := dials.Config(context.Background(), &tmpl,
		&demoSeedLowerLayer{port: 9999, verbose: true}, s)
	if err != nil {
		t.Fatalf("Config failed: %s", err)
	}
	got := d.View()
	if got.Port != 8080 || got.Verbose {
		t.Errorf("command line said -port=8080 -verbose=false; got %+v", *got)
	}
}

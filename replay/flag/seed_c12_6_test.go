// place in: sources/flag/
package flag

import (
	"bytes"
	"context"
	"strings"
	"testing"
	"time"

	"github.com/vimeo/dials"
)

type seedC123Window_r7c12_6 struct {
	NotBefore time.Time
}

type seedC123Config_r7c12_6 struct {
	Started time.Time
	Window  seedC123Window_r7c12_6
	Label   string
}

// The default advertised by a time.Time flag has to be the template's value
// for that leaf: parsing the advertised default must give back exactly the
// template's instant, including its sub-second part.
func TestDemoSeedC12TimeFlagAdvertisesTemplateValue_r7c12_6(t *testing.T) {
	started := time.Date(2021, time.March, 4, 5, 6, 7, 123456789, time.UTC)
	notBefore := time.Date(1999, time.December, 31, 23, 59, 59, 500000000, time.FixedZone("", 3600))
	tmpl := seedC123Config_r7c12_6{Started: started, Window: seedC123Window_r7c12_6{NotBefore: notBefore}, Label: "l"}

	s, setupErr := NewSetWithArgs(DefaultFlagNameConfig(), &tmpl, []string{})
	if setupErr != nil {
		t.Fatalf("failed to set up Set: %s", setupErr)
	}
	usage := bytes.Buffer{}
	s.Flags.SetOutput(&usage)
	s.Flags.PrintDefaults()

	for name, want := range map[string]time.Time{"started": started, "window-not-before": notBefore} {
		f := s.Flags.Lookup(name)
		if f == nil {
			t.Errorf("flag %q is not registered", name)
			continue
		}
		adv, parseErr := time.Parse(time.RFC3339Nano, f.DefValue)
		if parseErr != nil {
			t.Errorf("flag %q: advertised default %q does not parse: %s", name, f.DefValue, parseErr)
			continue
		}
		if !adv.Equal(want) {
			t.Errorf("flag %q advertises default %q (%s); the template's value is %s",
				name, f.DefValue, adv.Format(time.RFC3339Nano), want.Format(time.RFC3339Nano))
		}
		if !strings.Contains(usage.String(), want.Format(time.RFC3339Nano)) {
			t.Errorf("usage text does not show the template's value %s for flag %q:\n%s",
				want.Format(time.RFC3339Nano), name, usage.String())
		}
	}
}

// Passing the advertised default back on the command line must be a no-op
// with respect to the template.
func TestDemoSeedC12TimeFlagAdvertisedDefaultRoundTrips_r7c12_6(t *testing.T) {
	ctx, cancel := context.WithTimeout(context.Background(), 10*time.Second)
	defer cancel()

	started := time.Date(2021, time.March, 4, 5, 6, 7, 123456789, time.UTC)
	tmpl := seedC123Config_r7c12_6{Started: started, Label: "l"}
	probe, probeErr := NewSetWithArgs(DefaultFlagNameConfig(), &tmpl, []string{})
	if probeErr != nil {
		t.Fatalf("failed to set up Set: %s", probeErr)
	}
	adv := probe.Flags.Lookup("started").DefValue

	s, setupErr := NewSetWithArgs(DefaultFlagNameConfig(), &tmpl, []string{"-started=" + adv})
	if setupErr != nil {
		t.Fatalf("failed to set up Set: %s", setupErr)
	}
	d, cfgErr := dials.Config(ctx, &tmpl, s)
	if cfgErr != nil {
		t.Fatalf("stacking failed: %s", cfgErr)
	}
	if got := d.View(); !got.Started.Equal(started) {
		t.Errorf("-started=%s gave %s; the template's value is %s", adv,
			got.Started.Format(time.RFC3339Nano), started.Format(time.RFC3339Nano))
	}
}

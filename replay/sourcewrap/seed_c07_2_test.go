// place in: sourcewrap/
package sourcewrap_test

import (
	"context"
	"fmt"
	"reflect"
	"strings"
	"testing"
	"time"

	"github.com/vimeo/dials"
	"github.com/vimeo/dials/sourcewrap"
)

type demoSeed1Cfg struct {
	A int
	S fmt.Stringer
}

// demoSeed1BadSource hands back a struct whose second field (*int) can never
// be overlaid onto the fmt.Stringer field of the config, so compose() fails.
type demoSeed1BadSource struct{}

func (demoSeed1BadSource) Value(context.Context, *dials.Type) (reflect.Value, error) {
	a, n := 42, 7
	return reflect.ValueOf(&struct {
		A *int
		S *int
	}{A: &a, S: &n}), nil
}

func TestDemoSeedC07StackErrorReportedToBlockingCaller(t *testing.T) {
	ctx, cancel := context.WithTimeout(context.Background(), 5*time.Second)
	defer cancel()

	b := sourcewrap.Blank{}
	c := demoSeed1Cfg{A: 3}
	d, err := dials.Config(ctx, &c, &b)
	if err != nil {
		t.Fatalf("Config failed: %s", err)
	}
	before := d.View()

	setErr := b.SetSource(ctx, demoSeed1BadSource{})
	after := d.View()
	if setErr == nil {
		t.Fatalf("SetSource returned nil although the value cannot be stacked; view A=%d (reported A=42)", after.A)
	}
	if !strings.Contains(setErr.Error(), "stacking failed") {
		t.Errorf("unexpected error (wanted the stacking error): %s", setErr)
	}
	if after != before {
		t.Errorf("view changed after a failed stack: %+v -> %+v", before, after)
	}
}

// place in: sourcewrap/
package sourcewrap

import (
	"context"
	"errors"
	"reflect"
	"testing"
	"time"

	"github.com/vimeo/dials"
	"github.com/vimeo/dials/transform"
)

var seedC073ErrBad_r6c07_7 = errors.New("seedC073: Val must not be \"bad\"")

type seedC073Config_r6c07_7 struct {
	Val string
}

func (c *seedC073Config_r6c07_7) Verify() error {
	if c.Val == "bad" {
		return seedC073ErrBad_r6c07_7
	}
	return nil
}

// seedC073Watcher is a watching source that hands out an empty value and
// records the WatchArgs/type it is given, so that the test can push values with
// BlockingReportNewValue the way sourcewrap.Blank does.
type seedC073Watcher_r6c07_7 struct {
	wa  dials.WatchArgs
	typ *dials.Type
}

func (s *seedC073Watcher_r6c07_7) Value(_ context.Context, typ *dials.Type) (reflect.Value, error) {
	return reflect.New(typ.Type()).Elem(), nil
}

func (s *seedC073Watcher_r6c07_7) Watch(_ context.Context, typ *dials.Type, wa dials.WatchArgs) error {
	s.wa = wa
	s.typ = typ
	return nil
}

func (s *seedC073Watcher_r6c07_7) mk(val string) reflect.Value {
	v := reflect.New(s.typ.Type()).Elem()
	v.FieldByName("Val").Set(reflect.ValueOf(&val))
	return v
}

// seedC073Setup stacks a watching source that sits behind a transforming
// source (the mangler is a no-op for this struct, it has no embedded fields).
func seedC073Setup_r6c07_7(ctx context.Context, t *testing.T) (*dials.Dials[seedC073Config_r6c07_7], *seedC073Watcher_r6c07_7) {
	t.Helper()
	w := &seedC073Watcher_r6c07_7{}
	src := NewTransformingSource(w, transform.AnonymousFlattenMangler{})
	if _, isWatcher := src.(dials.Watcher); !isWatcher {
		t.Fatalf("transforming source around a Watcher is not a Watcher: %T", src)
	}
	d, err := dials.Config(ctx, &seedC073Config_r6c07_7{Val: "init"}, src)
	if err != nil {
		t.Fatalf("Config failed: %s", err)
	}
	if w.wa == nil {
		t.Fatalf("Watch was not called on the wrapped source")
	}
	return d, w
}

// A value that fails verification must make the blocking report return that
// error, also when the WatchArgs are the ones of a transforming source.
func TestDemoSeedC07RejectedValueThroughTransformingSource_r6c07_7(t *testing.T) {
	ctx, cancel := context.WithTimeout(context.Background(), 15*time.Second)
	defer cancel()
	d, w := seedC073Setup_r6c07_7(ctx, t)

	if repErr := w.wa.BlockingReportNewValue(ctx, w.mk("good")); repErr != nil {
		t.Fatalf("BlockingReportNewValue(good) failed: %s", repErr)
	}
	if got := d.View().Val; got != "good" {
		t.Errorf("BlockingReportNewValue(good) returned nil, but View().Val = %q", got)
	}

	repErr := w.wa.BlockingReportNewValue(ctx, w.mk("bad"))
	if repErr == nil {
		t.Errorf("BlockingReportNewValue(bad) returned nil although Verify() rejects the value")
	} else if !errors.Is(repErr, seedC073ErrBad_r6c07_7) {
		t.Errorf("BlockingReportNewValue(bad) returned %v; expected an error wrapping %v", repErr, seedC073ErrBad_r6c07_7)
	}
	if got := d.View().Val; got != "good" {
		t.Errorf("View().Val = %q after the rejected value; expected it unchanged (\"good\")", got)
	}
}

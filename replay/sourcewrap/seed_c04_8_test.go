// place in: sourcewrap/
package sourcewrap

import (
	"context"
	"errors"
	"reflect"
	"testing"
	"time"

	"github.com/vimeo/dials"
)

var seedC043ErrNoPort_r7c04_8 = errors.New("seedC043: port must be set")

type seedC043Config_r7c04_8 struct {
	Name string
	Port int
}

func (c *seedC043Config_r7c04_8) Verify() error {
	if c.Port == 0 {
		return seedC043ErrNoPort_r7c04_8
	}
	return nil
}

// seedC043Static is a non-watching source with a fixed (pointerified) value.
type seedC043Static_r7c04_8 struct {
	Name *string
	Port *int
}

func (s *seedC043Static_r7c04_8) Value(_ context.Context, t *dials.Type) (reflect.Value, error) {
	return reflect.ValueOf(struct {
		Name *string
		Port *int
	}{Name: s.Name, Port: s.Port}).Convert(t.Type()), nil
}

type seedC043ErrCall_r7c04_8 struct {
	err      error
	old, new *seedC043Config_r7c04_8
}

// A source plugged into a Blank whose stacked result fails Verify() is
// rejected: SetSource (a blocking report) returns the error, view and version
// stay as they were, and OnWatchedError is given the error together with the
// current config and the rejected one.
func TestDemoSeedC04BlankRejectedUpdateReachesOnWatchedError_r7c04_8(t *testing.T) {
	ctx, cancel := context.WithTimeout(context.Background(), 15*time.Second)
	defer cancel()

	calls := make(chan seedC043ErrCall_r7c04_8, 4)
	blank := &Blank{}
	base := seedC043Config_r7c04_8{Name: "svc", Port: 80}
	d, err := dials.Params[seedC043Config_r7c04_8]{
		OnWatchedError: func(_ context.Context, err error, oc, nc *seedC043Config_r7c04_8) {
			calls <- seedC043ErrCall_r7c04_8{err: err, old: oc, new: nc}
		},
	}.Config(ctx, &base, blank)
	if err != nil {
		t.Fatalf("Config failed: %s", err)
	}
	before, beforeSerial := d.ViewVersion()

	zero, name := 0, "broken"
	setErr := blank.SetSource(ctx, &seedC043Static_r7c04_8{Name: &name, Port: &zero})
	if !errors.Is(setErr, seedC043ErrNoPort_r7c04_8) {
		t.Errorf("SetSource with a source failing Verify() returned %v; want an error wrapping %q",
			setErr, seedC043ErrNoPort_r7c04_8)
	}

	after, afterSerial := d.ViewVersion()
	if after != before || afterSerial != beforeSerial {
		t.Errorf("view/version changed by a rejected update: %+v -> %+v", *before, *after)
	}

	select {
	case c := <-calls:
		if !errors.Is(c.err, seedC043ErrNoPort_r7c04_8) {
			t.Errorf("OnWatchedError got error %v; want %q", c.err, seedC043ErrNoPort_r7c04_8)
		}
		if c.old != before {
			t.Errorf("OnWatchedError oldConfig = %+v; want the current config %+v", c.old, before)
		}
		if c.new == nil || c.new.Name != "broken" || c.new.Port != 0 {
			t.Errorf("OnWatchedError newConfig = %+v; want the rejected config {broken 0}", c.new)
		}
	case <-time.After(3 * time.Second):
		t.Errorf("OnWatchedError was never called for the update rejected by Verify()")
	}
}

// place in: sourcewrap/
package sourcewrap

import (
	"context"
	"reflect"
	"testing"
	"time"

	"github.com/vimeo/dials"
)

type seedC201Conf_r6c20_5 struct {
	A int
	C string
}

// seedC201Val builds a value of the (pointerified) type Dials asked for with
// field C set to s.
func seedC201Val_r6c20_5(typ *dials.Type, s string) reflect.Value {
	v := reflect.New(typ.Type()).Elem()
	v.FieldByName("C").Set(reflect.ValueOf(&s))
	return v
}

// seedC201Watcher is a well-behaved watching source: like the file source it
// runs a goroutine for as long as the context handed to Watch is alive and
// reports every update it is fed.
type seedC201Watcher_r6c20_5 struct {
	updates chan string
	stopped chan struct{}
}

func (w *seedC201Watcher_r6c20_5) Value(_ context.Context, typ *dials.Type) (reflect.Value, error) {
	return seedC201Val_r6c20_5(typ, "initial"), nil
}

func (w *seedC201Watcher_r6c20_5) Watch(ctx context.Context, typ *dials.Type, args dials.WatchArgs) error {
	go func() {
		defer close(w.stopped)
		for {
			select {
			case <-ctx.Done():
				return
			case s := <-w.updates:
				if err := args.ReportNewValue(ctx, seedC201Val_r6c20_5(typ, s)); err != nil {
					return
				}
			}
		}
	}()
	return nil
}

var _ dials.Watcher = (*seedC201Watcher_r6c20_5)(nil)

func TestDemoSeedC201BlankWatcherOutlivesSetSourceContext_r6c20_5(t *testing.T) {
	ctx, cancel := context.WithCancel(context.Background())
	defer cancel()

	b := Blank{}
	c := seedC201Conf_r6c20_5{A: 7, C: "default"}
	d, err := dials.Config(ctx, &c, &b)
	if err != nil {
		t.Fatalf("failed to construct dials: %s", err)
	}

	w := &seedC201Watcher_r6c20_5{updates: make(chan string), stopped: make(chan struct{})}

	// The caller bounds only the SetSource call itself with a short-lived
	// context (the usual WithTimeout + cancel pattern).
	setCtx, setCancel := context.WithTimeout(ctx, 10*time.Second)
	setErr := b.SetSource(setCtx, w)
	setCancel()
	if setErr != nil {
		t.Fatalf("SetSource failed: %s", setErr)
	}
	if got := d.View().C; got != "initial" {
		t.Fatalf("unexpected value after SetSource: %q; expected %q", got, "initial")
	}

	// The watch belongs to the dials instance (the context given to
	// dials.Config / Blank.Watch), so the inner watcher must keep running.
	select {
	case <-w.stopped:
		t.Fatalf("inner watcher was shut down when the SetSource context ended; later updates are lost")
	case <-time.After(300 * time.Millisecond):
	}

	select {
	case w.updates <- "second":
	case <-w.stopped:
		t.Fatalf("inner watcher stopped before accepting an update")
	case <-time.After(10 * time.Second):
		t.Fatalf("timed out handing an update to the inner watcher")
	}

	deadline := time.After(10 * time.Second)
	for d.View().C != "second" {
		select {
		case <-d.Events():
		case <-time.After(10 * time.Millisecond):
		case <-deadline:
			t.Fatalf("update never reached the config; current value %q", d.View().C)
		}
	}
	if got := d.View().A; got != 7 {
		t.Errorf("unexpected A: %d; expected 7", got)
	}
}

// place in: sourcewrap/
package sourcewrap_test

import (
	"context"
	"errors"
	"reflect"
	"testing"
	"time"

	"github.com/vimeo/dials"
	"github.com/vimeo/dials/sourcewrap"
)

// demoSeed2Gate, when non-nil, makes Verify() block until it is closed
// (a slow verifier keeping the monitor goroutine busy).
var demoSeed2Gate chan struct{}
var demoSeed2InVerify = make(chan struct{}, 16)

type demoSeed2Cfg struct {
	A int
}

func (demoSeed2Cfg) Verify() error {
	if g := demoSeed2Gate; g != nil {
		demoSeed2InVerify <- struct{}{}
		<-g
	}
	return nil
}

type demoSeed2Source struct{ a int }

func (s demoSeed2Source) Value(_ context.Context, typ *dials.Type) (reflect.Value, error) {
	v := reflect.New(typ.Type())
	a := s.a
	v.Elem().Field(0).Set(reflect.ValueOf(&a))
	return v, nil
}

func TestDemoSeedC07ContextEndsBetweenSubmissionAndInstallation(t *testing.T) {
	ctx, cancel := context.WithCancel(context.Background())
	defer cancel()

	b := sourcewrap.Blank{}
	c := demoSeed2Cfg{A: 3}
	d, err := dials.Config(ctx, &c, &b)
	if err != nil {
		t.Fatalf("Config failed: %s", err)
	}

	// From here on Verify() blocks until the gate is opened.
	gate := make(chan struct{})
	demoSeed2Gate = gate
	defer func() { demoSeed2Gate = nil }()

	callCtx, callCancel := context.WithCancel(ctx)
	defer callCancel()
	res := make(chan error, 1)
	go func() { res <- b.SetSource(callCtx, demoSeed2Source{a: 11}) }()

	// wait until the monitor has accepted the value and is stuck verifying it
	select {
	case <-demoSeed2InVerify:
	case <-time.After(5 * time.Second):
		t.Fatal("monitor never started verifying the submitted value")
	}
	// the caller's context ends between submission and installation
	callCancel()

	select {
	case setErr := <-res:
		if !errors.Is(setErr, context.Canceled) {
			t.Errorf("expected a context error, got: %v", setErr)
		}
		if got := d.View().A; got != 3 {
			t.Errorf("value not installed yet, but View().A = %d", got)
		}
	case <-time.After(2 * time.Second):
		t.Errorf("SetSource still blocked 2s after its context was cancelled (submitted, awaiting installation)")
	}
	close(gate)
}

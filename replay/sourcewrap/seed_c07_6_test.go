// place in: sourcewrap/
package sourcewrap

import (
	"context"
	"errors"
	"reflect"
	"sync/atomic"
	"testing"
	"time"

	"github.com/vimeo/dials"
)

// seedC072Gate holds the monitor goroutine inside Verify() for the value "slow".
type seedC072Gate_r6c07_6 struct {
	entered chan struct{}
	release chan struct{}
}

// replaced at the start of every test run (so -count=N works)
var seedC072TheGate_r6c07_6 atomic.Pointer[seedC072Gate_r6c07_6]

type seedC072Config_r6c07_6 struct {
	Val string
}

func (c *seedC072Config_r6c07_6) Verify() error {
	if g := seedC072TheGate_r6c07_6.Load(); g != nil && c.Val == "slow" {
		g.entered <- struct{}{}
		<-g.release
	}
	return nil
}

// seedC072Static is a non-watching source with a fixed value for Val.
type seedC072Static_r6c07_6 struct {
	val string
}

func (s *seedC072Static_r6c07_6) Value(_ context.Context, typ *dials.Type) (reflect.Value, error) {
	v := reflect.New(typ.Type())
	val := s.val
	v.Elem().FieldByName("Val").Set(reflect.ValueOf(&val))
	return v, nil
}

// The context handed to SetSource ends after the value was submitted, while
// the monitor is still busy re-stacking it: SetSource has to come back with a
// context error instead of waiting for the monitor.
func TestDemoSeedC07SetSourceHonoursCallerContext_r6c07_6(t *testing.T) {
	ctx, cancel := context.WithCancel(context.Background())
	defer cancel()

	gate := &seedC072Gate_r6c07_6{entered: make(chan struct{}, 4), release: make(chan struct{})}
	seedC072TheGate_r6c07_6.Store(gate)
	defer seedC072TheGate_r6c07_6.Store(nil)
	released := false
	defer func() {
		if !released {
			close(gate.release)
		}
	}()

	b := Blank{}
	d, err := dials.Config(ctx, &seedC072Config_r6c07_6{Val: "init"}, &b)
	if err != nil {
		t.Fatalf("Config failed: %s", err)
	}

	// sanity: an ordinary SetSource works and is visible on return
	if setErr := b.SetSource(ctx, &seedC072Static_r6c07_6{val: "fast"}); setErr != nil {
		t.Fatalf("SetSource(fast) failed: %s", setErr)
	}
	if got := d.View().Val; got != "fast" {
		t.Fatalf("View().Val = %q after SetSource(fast) returned nil", got)
	}

	callCtx, callCancel := context.WithCancel(ctx)
	defer callCancel()
	setDone := make(chan error, 1)
	go func() { setDone <- b.SetSource(callCtx, &seedC072Static_r6c07_6{val: "slow"}) }()

	select {
	case <-gate.entered:
	case <-time.After(10 * time.Second):
		t.Fatalf("the monitor never started verifying the new value")
	}
	// The value has been submitted, the monitor is stuck in Verify(); now the
	// caller gives up.
	callCancel()

	select {
	case setErr := <-setDone:
		if !errors.Is(setErr, context.Canceled) {
			t.Errorf("SetSource returned %v; expected an error wrapping context.Canceled", setErr)
		}
	case <-time.After(2 * time.Second):
		t.Errorf("SetSource still blocked 2s after its context was cancelled (monitor busy)")
	}

	// let the monitor finish, the value is installed eventually.
	released = true
	close(gate.release)
	for deadline := time.Now().Add(10 * time.Second); d.View().Val != "slow"; {
		if time.Now().After(deadline) {
			t.Fatalf("value never got installed; view: %+v", *d.View())
		}
		time.Sleep(time.Millisecond)
	}
}

// A context that is already over when SetSource is called, with a monitor that
// does not accept anything (it is busy): SetSource must not wait for it.
func TestDemoSeedC07SetSourceCancelledBeforeSubmission_r6c07_6(t *testing.T) {
	ctx, cancel := context.WithCancel(context.Background())
	defer cancel()

	gate := &seedC072Gate_r6c07_6{entered: make(chan struct{}, 4), release: make(chan struct{})}
	seedC072TheGate_r6c07_6.Store(gate)
	defer seedC072TheGate_r6c07_6.Store(nil)
	defer close(gate.release)

	b1, b2 := Blank{}, Blank{}
	if _, err := dials.Config(ctx, &seedC072Config_r6c07_6{Val: "init"}, &b1, &b2); err != nil {
		t.Fatalf("Config failed: %s", err)
	}

	// occupy the monitor via the first Blank
	go b1.SetSource(ctx, &seedC072Static_r6c07_6{val: "slow"})
	select {
	case <-gate.entered:
	case <-time.After(10 * time.Second):
		t.Fatalf("the monitor never started verifying the new value")
	}

	deadCtx, deadCancel := context.WithCancel(ctx)
	deadCancel()
	setDone := make(chan error, 1)
	go func() { setDone <- b2.SetSource(deadCtx, &seedC072Static_r6c07_6{val: "other"}) }()
	select {
	case setErr := <-setDone:
		if !errors.Is(setErr, context.Canceled) {
			t.Errorf("SetSource returned %v; expected an error wrapping context.Canceled", setErr)
		}
	case <-time.After(2 * time.Second):
		t.Errorf("SetSource with an already cancelled context still blocked after 2s (monitor busy)")
	}
}

// place in: sourcewrap/
package sourcewrap

import (
	"context"
	"reflect"
	"testing"
	"time"

	"github.com/vimeo/dials"
)

type demoSeed3Conf struct {
	A int
	B string
}

// non-watching source returning a fixed config
type demoSeed3Static struct {
	val demoSeed3Conf
}

func (d *demoSeed3Static) Value(context.Context, *dials.Type) (reflect.Value, error) {
	return reflect.ValueOf(d.val), nil
}

// watching source returning a fixed config and remembering its WatchArgs
type demoSeed3Watcher struct {
	demoSeed3Static
	args dials.WatchArgs
}

func (d *demoSeed3Watcher) Watch(_ context.Context, _ *dials.Type, args dials.WatchArgs) error {
	d.args = args
	return nil
}

var _ dials.Watcher = (*demoSeed3Watcher)(nil)

// WatchArgs implementation that records what it is told
type demoSeed3RecordingArgs struct {
	doneCalls int
	values    []reflect.Value
}

func (d *demoSeed3RecordingArgs) ReportNewValue(_ context.Context, v reflect.Value) error {
	d.values = append(d.values, v)
	return nil
}
func (d *demoSeed3RecordingArgs) BlockingReportNewValue(_ context.Context, v reflect.Value) error {
	d.values = append(d.values, v)
	return nil
}
func (d *demoSeed3RecordingArgs) ReportError(context.Context, error) error { return nil }
func (d *demoSeed3RecordingArgs) Done(context.Context)                     { d.doneCalls++ }

// Done is forwarded only while the Blank still owns the watch slot.
func TestDemoSeedBlankDoneForwarding(t *testing.T) {
	ctx := context.Background()
	typ := dials.NewType(reflect.TypeOf(demoSeed3Conf{}))

	t.Run("unset", func(t *testing.T) {
		b, rec := Blank{}, demoSeed3RecordingArgs{}
		if err := b.Watch(ctx, typ, &rec); err != nil {
			t.Fatal(err)
		}
		b.Done(ctx)
		if rec.doneCalls != 1 {
			t.Errorf("Done forwarded %d times with no inner source; expected 1", rec.doneCalls)
		}
	})
	t.Run("non_watching_inner", func(t *testing.T) {
		b, rec := Blank{}, demoSeed3RecordingArgs{}
		if err := b.Watch(ctx, typ, &rec); err != nil {
			t.Fatal(err)
		}
		if err := b.SetSource(ctx, &demoSeed3Static{val: demoSeed3Conf{A: 2}}); err != nil {
			t.Fatal(err)
		}
		b.Done(ctx)
		if rec.doneCalls != 1 {
			t.Errorf("Done forwarded %d times with a non-watching inner source; expected 1", rec.doneCalls)
		}
	})
	t.Run("watching_inner", func(t *testing.T) {
		b, rec := Blank{}, demoSeed3RecordingArgs{}
		if err := b.Watch(ctx, typ, &rec); err != nil {
			t.Fatal(err)
		}
		if err := b.SetSource(ctx, &demoSeed3Watcher{}); err != nil {
			t.Fatal(err)
		}
		b.Done(ctx)
		if rec.doneCalls != 0 {
			t.Errorf("Done forwarded %d times although a Watcher owns the slot; expected 0", rec.doneCalls)
		}
	})
}

// End to end: Done() on a Blank holding a Watcher must not cut off that
// watcher's later updates.
func TestDemoSeedBlankDoneKeepsInnerWatcherUpdates(t *testing.T) {
	ctx, cancel := context.WithCancel(context.Background())
	defer cancel()

	b := Blank{}
	c := demoSeed3Conf{A: 1, B: "default"}
	d, err := dials.Config(ctx, &c, &b)
	if err != nil {
		t.Fatalf("failed to construct Dials: %s", err)
	}

	w := demoSeed3Watcher{demoSeed3Static: demoSeed3Static{val: demoSeed3Conf{A: 10, B: "watcher"}}}
	if setErr := b.SetSource(ctx, &w); setErr != nil {
		t.Fatalf("SetSource(watcher) failed: %s", setErr)
	}
	if got := *d.View(); got != w.val {
		t.Fatalf("unexpected config after SetSource(watcher): %+v", got)
	}

	b.Done(ctx)

	upd := demoSeed3Conf{A: 11, B: "update"}
	repCtx, repCancel := context.WithTimeout(ctx, 2*time.Second)
	defer repCancel()
	// send two updates so a buffered-but-unread channel cannot hide the problem
	for i := 0; i < 2; i++ {
		if repErr := w.args.ReportNewValue(repCtx, reflect.ValueOf(upd)); repErr != nil {
			t.Fatalf("inner watcher failed to report update %d after Blank.Done: %s", i, repErr)
		}
	}
	deadline := time.After(2 * time.Second)
	for {
		select {
		case <-deadline:
			t.Fatalf("update from inner watcher never reached the config after Blank.Done; config is %+v", *d.View())
		default:
		}
		if got := *d.View(); got == upd {
			return
		}
		time.Sleep(5 * time.Millisecond)
	}
}

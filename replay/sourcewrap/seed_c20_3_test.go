// place in: sourcewrap/
package sourcewrap

import (
	"context"
	"reflect"
	"testing"

	"github.com/vimeo/dials"
)

type demoSeed2Conf struct {
	A int
	B string
}

// non-watching source that returns a fixed config
type demoSeed2Static struct {
	val   demoSeed2Conf
	calls int
}

func (d *demoSeed2Static) Value(_ context.Context, typ *dials.Type) (reflect.Value, error) {
	d.calls++
	return reflect.ValueOf(d.val), nil
}

// watching source that returns a fixed config and remembers its WatchArgs
type demoSeed2Watcher struct {
	demoSeed2Static
	watchCalls int
	args       dials.WatchArgs
}

func (d *demoSeed2Watcher) Watch(_ context.Context, _ *dials.Type, args dials.WatchArgs) error {
	d.watchCalls++
	d.args = args
	return nil
}

var _ dials.Watcher = (*demoSeed2Watcher)(nil)

// A watching inner source owns the slot: a later SetSource must be refused and
// must not change what the Blank delegates to.
func TestDemoSeedBlankRefusesToReplaceWatcher(t *testing.T) {
	ctx, cancel := context.WithCancel(context.Background())
	defer cancel()

	b := Blank{}
	c := demoSeed2Conf{A: 1, B: "default"}
	d, err := dials.Config(ctx, &c, &b)
	if err != nil {
		t.Fatalf("failed to construct Dials: %s", err)
	}

	w := demoSeed2Watcher{demoSeed2Static: demoSeed2Static{val: demoSeed2Conf{A: 10, B: "watcher"}}}
	if setErr := b.SetSource(ctx, &w); setErr != nil {
		t.Fatalf("SetSource(watcher) failed: %s", setErr)
	}
	if got := *d.View(); got != w.val {
		t.Fatalf("unexpected config after SetSource(watcher): %+v", got)
	}

	st := demoSeed2Static{val: demoSeed2Conf{A: 20, B: "static"}}
	if setErr := b.SetSource(ctx, &st); setErr == nil {
		t.Errorf("SetSource(non-watcher) succeeded although a Watcher owns the Blank")
	}
	if st.calls != 0 {
		t.Errorf("replacement source's Value called %d times; expected 0", st.calls)
	}
	if got := *d.View(); got != w.val {
		t.Errorf("config changed by a refused replacement: got %+v; expected %+v", got, w.val)
	}
	v, valErr := b.Value(ctx, dials.NewType(reflect.TypeOf(c)))
	if valErr != nil {
		t.Fatalf("Blank.Value failed: %s", valErr)
	}
	if got := v.Interface().(demoSeed2Conf); got != w.val {
		t.Errorf("Blank.Value delegates to the wrong source: got %+v; expected %+v", got, w.val)
	}
}

// Non-watching inner sources may be replaced, including by a watching one.
func TestDemoSeedBlankReplacesNonWatcherWithWatcher(t *testing.T) {
	ctx, cancel := context.WithCancel(context.Background())
	defer cancel()

	b := Blank{}
	c := demoSeed2Conf{A: 1, B: "default"}
	d, err := dials.Config(ctx, &c, &b)
	if err != nil {
		t.Fatalf("failed to construct Dials: %s", err)
	}

	st := demoSeed2Static{val: demoSeed2Conf{A: 20, B: "static"}}
	if setErr := b.SetSource(ctx, &st); setErr != nil {
		t.Fatalf("SetSource(non-watcher) failed: %s", setErr)
	}
	if got := *d.View(); got != st.val {
		t.Fatalf("unexpected config after SetSource(static): %+v", got)
	}

	w := demoSeed2Watcher{demoSeed2Static: demoSeed2Static{val: demoSeed2Conf{A: 10, B: "watcher"}}}
	if setErr := b.SetSource(ctx, &w); setErr != nil {
		t.Fatalf("SetSource(watcher) over a non-watching source failed: %s", setErr)
	}
	if got := *d.View(); got != w.val {
		t.Errorf("config not taken from the most recently set source: got %+v; expected %+v", got, w.val)
	}
	if w.watchCalls != 1 {
		t.Errorf("watcher's Watch called %d times; expected 1", w.watchCalls)
	}
}

// place in: sourcewrap/
package sourcewrap_test

import (
	"context"
	"reflect"
	"testing"
	"time"

	"github.com/vimeo/dials"
	"github.com/vimeo/dials/sourcewrap"
)

type demoSeedc08_4x3Cfg struct {
	Foo string
}

type demoSeedc08_4x3Static struct{}

func (demoSeedc08_4x3Static) Value(_ context.Context, t *dials.Type) (reflect.Value, error) {
	return reflect.New(t.Type()), nil
}

// After every watching source has called Done (so the monitor has shut down)
// while the Config context is still live, a later SetSource must fail no later
// than when the context passed to SetSource ends.
func TestDemoSeedSetSourceAfterDoneHonoursCallerContext(t *testing.T) {
	cfgCtx, cfgCancel := context.WithCancel(context.Background())
	defer cfgCancel()

	blank := &sourcewrap.Blank{}
	if _, err := dials.Config(cfgCtx, &demoSeedc08_4x3Cfg{Foo: "init"}, blank); err != nil {
		t.Fatalf("Config failed: %s", err)
	}

	// the only watcher finishes: the monitor goroutine exits
	blank.Done(cfgCtx)

	callCtx, callCancel := context.WithTimeout(context.Background(), 100*time.Millisecond)
	defer callCancel()
	res := make(chan error, 1)
	go func() { res <- blank.SetSource(callCtx, demoSeedc08_4x3Static{}) }()

	select {
	case err := <-res:
		if err == nil {
			t.Fatal("SetSource after shutdown reported success")
		}
		t.Logf("SetSource failed as expected: %s", err)
	case <-time.After(3 * time.Second):
		t.Fatal("SetSource is still blocked 3s after its 100ms context expired")
	}
}

// Drop this file into sourcewrap/ (package sourcewrap) as
// sourcewrap/zz_demo_test.go and run:
//   go test -vet=off -count=1 -run TestDemoTransformingSourceWatchUpdate -timeout 60s ./sourcewrap/
package sourcewrap

import (
	"context"
	"fmt"
	"reflect"
	"testing"
	"time"

	"github.com/vimeo/dials"
	"github.com/vimeo/dials/transform"
)

// demoSetWatcher is a watching source that natively produces the *mangled*
// type it is asked for (Set is a []string there, thanks to SetSliceMangler).
type demoSetWatcher struct {
	initial []string
	args    dials.WatchArgs
	typ     *dials.Type
}

var _ dials.Watcher = (*demoSetWatcher)(nil)

func (d *demoSetWatcher) build(typ *dials.Type, members []string) (reflect.Value, error) {
	out := reflect.New(typ.Type())
	f := out.Elem().FieldByName("Set")
	if !f.IsValid() {
		return reflect.Value{}, fmt.Errorf("no field Set in %s", typ.Type())
	}
	ft := f.Type()
	isPtr := ft.Kind() == reflect.Ptr
	if isPtr {
		ft = ft.Elem()
	}
	if ft.Kind() != reflect.Slice || ft.Elem().Kind() != reflect.String {
		return reflect.Value{}, fmt.Errorf("inner source was asked for unexpected type %s for Set", f.Type())
	}
	sl := reflect.MakeSlice(ft, 0, len(members))
	for _, m := range members {
		sl = reflect.Append(sl, reflect.ValueOf(m).Convert(ft.Elem()))
	}
	if isPtr {
		p := reflect.New(ft)
		p.Elem().Set(sl)
		f.Set(p)
	} else {
		f.Set(sl)
	}
	// the transformer reverse-translates struct values (not pointers)
	return out.Elem(), nil
}

func (d *demoSetWatcher) Value(_ context.Context, typ *dials.Type) (reflect.Value, error) {
	return d.build(typ, d.initial)
}

func (d *demoSetWatcher) Watch(_ context.Context, typ *dials.Type, args dials.WatchArgs) error {
	d.args = args
	d.typ = typ
	return nil
}

func (d *demoSetWatcher) update(ctx context.Context, members []string) error {
	v, err := d.build(d.typ, members)
	if err != nil {
		return err
	}
	return d.args.ReportNewValue(ctx, v)
}

// An update reported by a wrapped watching source must reach the config
// reverse-translated, exactly like the initial value does.
func TestDemoTransformingSourceWatchUpdate(t *testing.T) {
	ctx, cancel := context.WithTimeout(context.Background(), 30*time.Second)
	defer cancel()

	type conf struct {
		Name string
		Set  map[string]struct{}
	}

	inner := &demoSetWatcher{initial: []string{"a", "b"}}
	src := NewTransformingSource(inner, &transform.SetSliceMangler{})

	watchErrs := make(chan error, 4)
	p := dials.Params[conf]{
		OnWatchedError: func(_ context.Context, err error, _, _ *conf) {
			watchErrs <- err
		},
	}
	d, err := p.Config(ctx, &conf{Name: "fizzlebat"}, src)
	if err != nil {
		t.Fatalf("initial stacking failed: %s", err)
	}
	wantInit := map[string]struct{}{"a": {}, "b": {}}
	if got := d.View().Set; !reflect.DeepEqual(got, wantInit) {
		t.Fatalf("unexpected initial Set: got %v; want %v", got, wantInit)
	}

	if upErr := inner.update(ctx, []string{"x", "y", "z"}); upErr != nil {
		t.Fatalf("failed to report update: %s", upErr)
	}

	wantUpdated := map[string]struct{}{"x": {}, "y": {}, "z": {}}
	select {
	case newCfg := <-d.Events():
		if !reflect.DeepEqual(newCfg.Set, wantUpdated) {
			t.Errorf("unexpected updated Set: got %v; want %v", newCfg.Set, wantUpdated)
		}
		if newCfg.Name != "fizzlebat" {
			t.Errorf("default clobbered: Name = %q", newCfg.Name)
		}
	case wErr := <-watchErrs:
		t.Fatalf("update from wrapped watcher was rejected while stacking: %s", wErr)
	case <-ctx.Done():
		t.Fatalf("timed out waiting for the update to be installed")
	}
	if got := d.View().Set; !reflect.DeepEqual(got, wantUpdated) {
		t.Errorf("unexpected Set in View after update: got %v; want %v", got, wantUpdated)
	}
}

// place in: sourcewrap/
package sourcewrap

import (
	"context"
	"reflect"
	"strings"
	"testing"
	"time"

	"github.com/vimeo/dials"
	"github.com/vimeo/dials/transform"
)

type seedC203Conf_r6c20_7 struct {
	Name string
	Port int
}

// seedC203NormalizeMangler leaves every field (and therefore the struct
// type) untouched in Mangle; its Unmangle canonicalises string values
// (trimmed and lower-cased). It is a value-only mangler.
type seedC203NormalizeMangler_r6c20_7 struct{}

func (seedC203NormalizeMangler_r6c20_7) Mangle(sf reflect.StructField) ([]reflect.StructField, error) {
	return []reflect.StructField{sf}, nil
}

func (seedC203NormalizeMangler_r6c20_7) Unmangle(_ reflect.StructField, vs []transform.FieldValueTuple) (reflect.Value, error) {
	v := vs[0].Value
	if v.Kind() == reflect.Ptr && !v.IsNil() && v.Elem().Kind() == reflect.String {
		s := strings.ToLower(strings.TrimSpace(v.Elem().String()))
		return reflect.ValueOf(&s), nil
	}
	return v, nil
}

func (seedC203NormalizeMangler_r6c20_7) ShouldRecurse(reflect.StructField) bool { return false }

var _ transform.Mangler = seedC203NormalizeMangler_r6c20_7{}

func seedC203Val_r6c20_7(typ *dials.Type, name string, port int) reflect.Value {
	v := reflect.New(typ.Type()).Elem()
	v.FieldByName("Name").Set(reflect.ValueOf(&name))
	v.FieldByName("Port").Set(reflect.ValueOf(&port))
	return v
}

// seedC203Static is a plain non-watching source.
type seedC203Static_r6c20_7 struct{ name string }

func (s *seedC203Static_r6c20_7) Value(_ context.Context, typ *dials.Type) (reflect.Value, error) {
	return seedC203Val_r6c20_7(typ, s.name, 8080), nil
}

// seedC203Watching produces the same initial value and lets the test push
// updates.
type seedC203Watching_r6c20_7 struct {
	seedC203Static_r6c20_7
	typ  *dials.Type
	args dials.WatchArgs
}

func (s *seedC203Watching_r6c20_7) Watch(_ context.Context, typ *dials.Type, args dials.WatchArgs) error {
	s.typ, s.args = typ, args
	return nil
}

var _ dials.Watcher = (*seedC203Watching_r6c20_7)(nil)

func TestDemoSeedC203InitialValueIsReverseTranslatedStaticSource_r6c20_7(t *testing.T) {
	ctx, cancel := context.WithTimeout(context.Background(), 15*time.Second)
	defer cancel()

	c := seedC203Conf_r6c20_7{Name: "default", Port: 1}
	src := NewTransformingSource(&seedC203Static_r6c20_7{name: "  MiXeD-Host "}, seedC203NormalizeMangler_r6c20_7{})
	d, err := dials.Config(ctx, &c, src)
	if err != nil {
		t.Fatalf("failed to construct dials: %s", err)
	}
	got := d.View()
	if got.Name != "mixed-host" {
		t.Errorf("initial value did not pass through the mangler's Unmangle: Name %q; expected %q", got.Name, "mixed-host")
	}
	if got.Port != 8080 {
		t.Errorf("unexpected Port %d; expected 8080", got.Port)
	}
}

func TestDemoSeedC203InitialValueAndUpdatesAgreeWatchingSource_r6c20_7(t *testing.T) {
	ctx, cancel := context.WithTimeout(context.Background(), 15*time.Second)
	defer cancel()

	c := seedC203Conf_r6c20_7{Name: "default", Port: 1}
	inner := &seedC203Watching_r6c20_7{seedC203Static_r6c20_7: seedC203Static_r6c20_7{name: "  MiXeD-Host "}}
	d, err := dials.Config(ctx, &c, NewTransformingSource(inner, seedC203NormalizeMangler_r6c20_7{}))
	if err != nil {
		t.Fatalf("failed to construct dials: %s", err)
	}
	if got := d.View().Name; got != "mixed-host" {
		t.Errorf("initial value was not reverse-translated: Name %q; expected %q", got, "mixed-host")
	}

	// the very same raw value reported as an update
	if repErr := inner.args.ReportNewValue(ctx, seedC203Val_r6c20_7(inner.typ, "  MiXeD-Host ", 8080)); repErr != nil {
		t.Fatalf("ReportNewValue failed: %s", repErr)
	}
	select {
	case upd := <-d.Events():
		if upd.Name != "mixed-host" {
			t.Errorf("update was not reverse-translated: Name %q; expected %q", upd.Name, "mixed-host")
		}
	case <-ctx.Done():
		t.Fatalf("timed out waiting for the update")
	}
}

// place in: sourcewrap/
package sourcewrap

import (
	"context"
	"errors"
	"reflect"
	"testing"

	"github.com/vimeo/dials"
	"github.com/vimeo/dials/transform"
)

// demoSeedFailingWatcher returns a zero value from Value() and always fails in Watch().
type demoSeedFailingWatcher struct {
	err error
}

func (d *demoSeedFailingWatcher) Value(_ context.Context, typ *dials.Type) (reflect.Value, error) {
	return reflect.New(typ.Type()).Elem(), nil
}

func (d *demoSeedFailingWatcher) Watch(context.Context, *dials.Type, dials.WatchArgs) error {
	return d.err
}

type demoSeedNopWatchArgs struct{}

func (demoSeedNopWatchArgs) ReportNewValue(context.Context, reflect.Value) error         { return nil }
func (demoSeedNopWatchArgs) BlockingReportNewValue(context.Context, reflect.Value) error { return nil }
func (demoSeedNopWatchArgs) ReportError(context.Context, error) error                    { return nil }
func (demoSeedNopWatchArgs) Done(context.Context)                                        {}

func TestDemoSeedTransformingWatchErrorPropagates(t *testing.T) {
	ctx, cancel := context.WithCancel(context.Background())
	defer cancel()

	type conf struct {
		A   int
		Set map[string]struct{}
	}

	expErr := errors.New("inner watch setup failed")

	for _, tc := range []struct {
		name     string
		manglers []transform.Mangler
	}{
		{name: "no_manglers", manglers: nil},
		{name: "set_slice", manglers: []transform.Mangler{&transform.SetSliceMangler{}}},
	} {
		t.Run(tc.name, func(t *testing.T) {
			inner := &demoSeedFailingWatcher{err: expErr}
			src := NewTransformingSource(inner, tc.manglers...)
			w, ok := src.(dials.Watcher)
			if !ok {
				t.Fatalf("wrapped watcher does not implement dials.Watcher: %T", src)
			}
			// direct call: the inner Watch error must be returned
			wErr := w.Watch(ctx, dials.NewType(reflect.TypeOf(conf{})), demoSeedNopWatchArgs{})
			if !errors.Is(wErr, expErr) {
				t.Errorf("Watch on wrapped source returned %v; expected an error wrapping %q", wErr, expErr)
			}

			// end-to-end: dials.Config must fail exactly as it does with the unwrapped source
			_, nativeErr := dials.Config(ctx, &conf{}, inner)
			if !errors.Is(nativeErr, expErr) {
				t.Fatalf("sanity: unwrapped source did not fail Config as expected: %v", nativeErr)
			}
			_, wrappedCfgErr := dials.Config(ctx, &conf{}, NewTransformingSource(inner, tc.manglers...))
			if !errors.Is(wrappedCfgErr, expErr) {
				t.Errorf("dials.Config with wrapped source returned %v; expected an error wrapping %q", wrappedCfgErr, expErr)
			}
		})
	}
}

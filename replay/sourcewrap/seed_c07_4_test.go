// place in: sourcewrap/
package sourcewrap_test

import (
	"context"
	"fmt"
	"reflect"
	"testing"
	"time"

	"github.com/vimeo/dials"
	"github.com/vimeo/dials/sourcewrap"
)

type demoSeed3Cfg struct {
	A int
}

func (c demoSeed3Cfg) Verify() error {
	if c.A > 100 {
		return fmt.Errorf("A %d > 100", c.A)
	}
	return nil
}

// demoSeed3WatchingSource is a Source that also implements dials.Watcher
// (like a watched config file); it never pushes anything after its initial value.
type demoSeed3WatchingSource struct{ a int }

func (s *demoSeed3WatchingSource) Value(_ context.Context, typ *dials.Type) (reflect.Value, error) {
	v := reflect.New(typ.Type())
	a := s.a
	v.Elem().Field(0).Set(reflect.ValueOf(&a))
	return v, nil
}

func (s *demoSeed3WatchingSource) Watch(context.Context, *dials.Type, dials.WatchArgs) error {
	return nil
}

func TestDemoSeedC07SetSourceWatcherRejectedValue(t *testing.T) {
	ctx, cancel := context.WithTimeout(context.Background(), 5*time.Second)
	defer cancel()

	b := sourcewrap.Blank{}
	c := demoSeed3Cfg{A: 3}
	d, err := dials.Config(ctx, &c, &b)
	if err != nil {
		t.Fatalf("Config failed: %s", err)
	}

	// The watching source's initial value (A=500) fails verification: SetSource
	// must hand that error back and leave the view alone.
	setErr := b.SetSource(ctx, &demoSeed3WatchingSource{a: 500})
	if setErr == nil {
		t.Errorf("SetSource returned nil for a value that fails Verify(); View().A = %d", d.View().A)
	}
	if got := d.View().A; got != 3 {
		t.Errorf("view changed by a rejected value: A = %d", got)
	}
}

func TestDemoSeedC07SetSourceWatcherValueStackedOnReturn(t *testing.T) {
	ctx, cancel := context.WithTimeout(context.Background(), 5*time.Second)
	defer cancel()

	for i := 0; i < 200; i++ {
		b := sourcewrap.Blank{}
		c := demoSeed3Cfg{A: 3}
		d, err := dials.Config(ctx, &c, &b)
		if err != nil {
			t.Fatalf("Config failed: %s", err)
		}
		if setErr := b.SetSource(ctx, &demoSeed3WatchingSource{a: 50}); setErr != nil {
			t.Fatalf("SetSource failed: %s", setErr)
		}
		// nil return: the value must already be visible
		if got := d.View().A; got != 50 {
			t.Fatalf("iteration %d: SetSource returned nil but View().A = %d (want 50)", i, got)
		}
	}
}

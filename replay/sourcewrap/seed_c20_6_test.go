// place in: sourcewrap/
package sourcewrap

import (
	"context"
	"errors"
	"reflect"
	"testing"
	"time"

	"github.com/vimeo/dials"
	"github.com/vimeo/dials/transform"
)

var seedC202ErrNegative_r6c20_6 = errors.New("seedC202: Level must not be negative")

type seedC202Conf_r6c20_6 struct {
	Names map[string]struct{}
	Level int
}

// Verify makes the config a dials.VerifiedConfig: a re-stack with a negative
// Level is rejected, and a blocking report has to hand that rejection back.
func (c *seedC202Conf_r6c20_6) Verify() error {
	if c.Level < 0 {
		return seedC202ErrNegative_r6c20_6
	}
	return nil
}

// seedC202Static is a non-watching source that fills the (mangled,
// pointerified) type it is asked for: Names is a []string there.
type seedC202Static_r6c20_6 struct {
	names []string
	level int
}

func (s *seedC202Static_r6c20_6) Value(_ context.Context, typ *dials.Type) (reflect.Value, error) {
	v := reflect.New(typ.Type()).Elem()
	lvl := s.level
	v.FieldByName("Level").Set(reflect.ValueOf(&lvl))
	nf := v.FieldByName("Names")
	names := reflect.ValueOf(s.names)
	if nf.Kind() == reflect.Ptr {
		p := reflect.New(nf.Type().Elem())
		p.Elem().Set(names)
		nf.Set(p)
	} else {
		nf.Set(names)
	}
	return v, nil
}

// seedC202Settable is a minimal Blank-like watching source (it hands out
// struct values, which is what the transforming wrapper needs): it starts
// empty and pushes the value of a source set later through the blocking
// report, so that the caller learns whether the new value was installed.
type seedC202Settable_r6c20_6 struct {
	typ  *dials.Type
	args dials.WatchArgs
}

func (s *seedC202Settable_r6c20_6) Value(_ context.Context, typ *dials.Type) (reflect.Value, error) {
	return reflect.New(typ.Type()).Elem(), nil
}

func (s *seedC202Settable_r6c20_6) Watch(_ context.Context, typ *dials.Type, args dials.WatchArgs) error {
	s.typ, s.args = typ, args
	return nil
}

func (s *seedC202Settable_r6c20_6) set(ctx context.Context, src dials.Source) error {
	v, err := src.Value(ctx, s.typ)
	if err != nil {
		return err
	}
	return s.args.BlockingReportNewValue(ctx, v)
}

var _ dials.Watcher = (*seedC202Settable_r6c20_6)(nil)

func TestDemoSeedC202TransformedBlockingReportIsSynchronousAndReportsRejection_r6c20_6(t *testing.T) {
	ctx, cancel := context.WithTimeout(context.Background(), 15*time.Second)
	defer cancel()

	inner := &seedC202Settable_r6c20_6{}
	c := seedC202Conf_r6c20_6{Level: 1}
	d, err := dials.Config(ctx, &c, NewTransformingSource(inner, &transform.SetSliceMangler{}))
	if err != nil {
		t.Fatalf("failed to construct dials: %s", err)
	}
	if got := d.View().Level; got != 1 {
		t.Fatalf("unexpected initial Level %d; expected 1", got)
	}

	// 1) a blocking report returns only once the value is installed.
	if setErr := inner.set(ctx, &seedC202Static_r6c20_6{names: []string{"a", "b"}, level: 5}); setErr != nil {
		t.Fatalf("blocking report of a valid value failed: %s", setErr)
	}
	cur := d.View()
	if cur.Level != 5 || len(cur.Names) != 2 {
		t.Errorf("value not installed when the blocking report returned: got %+v; expected Level 5 and Names {a,b}", *cur)
	}
	if _, ok := cur.Names["a"]; !ok && len(cur.Names) == 2 {
		t.Errorf("Names not reverse-translated correctly: %v", cur.Names)
	}

	// 2) a value that the config rejects makes the blocking report fail with
	// the verification error, exactly as it does for an unwrapped source.
	setErr := inner.set(ctx, &seedC202Static_r6c20_6{names: []string{"z"}, level: -3})
	if setErr == nil {
		t.Fatalf("blocking report of a rejected value returned nil; the stacking/verification error was swallowed")
	}
	if !errors.Is(setErr, seedC202ErrNegative_r6c20_6) {
		t.Errorf("unexpected error %q; expected it to wrap %q", setErr, seedC202ErrNegative_r6c20_6)
	}
	if got := d.View().Level; got != 5 {
		t.Errorf("rejected value was installed: Level %d; expected 5", got)
	}
}

package sourcewrap

// Replay battery for C20: a watching source behind NewTransformingSource must have its later updates
// reverse-translated exactly like its initial value.

import (
	"context"
	"reflect"
	"testing"
	"time"

	"github.com/vimeo/dials"
	"github.com/vimeo/dials/transform"
)

type rpInner struct {
	wa  dials.WatchArgs
	typ *dials.Type
}

func (s *rpInner) fill(v string) reflect.Value { return s.fillField("Name", v) }

func (s *rpInner) fillField(field, v string) reflect.Value {
	val := reflect.New(s.typ.Type())
	f := val.Elem().FieldByName(field)
	if !f.IsValid() {
		panic("translated type has no Name field")
	}
	f.Set(reflect.ValueOf(&v))
	return val.Elem()
}

func (s *rpInner) Value(_ context.Context, t *dials.Type) (reflect.Value, error) {
	s.typ = t
	return s.fill("initial"), nil
}

func (s *rpInner) Watch(_ context.Context, t *dials.Type, wa dials.WatchArgs) error {
	s.typ = t
	s.wa = wa
	return nil
}

type rpConf struct {
	Name  string `dials:"name" dialsalias:"oldname"`
	Other int
}

func TestReplay_C20_WatchedUpdatesAreReverseTranslated(t *testing.T) {
	ctx, cancel := context.WithTimeout(context.Background(), 5*time.Second)
	defer cancel()
	inner := &rpInner{}
	src := NewTransformingSource(inner, transform.NewAliasMangler("dials"))
	d, err := dials.Config(ctx, &rpConf{Other: 3}, src)
	if err != nil {
		t.Fatal(err)
	}
	if got := d.View().Name; got != "initial" {
		t.Fatalf("initial value: got %q", got)
	}
	// non-blocking report followed by a blocking one: both must arrive translated
	if err := inner.wa.ReportNewValue(ctx, inner.fill("second")); err != nil {
		t.Fatal(err)
	}
	if err := inner.wa.BlockingReportNewValue(ctx, inner.fill("third")); err != nil {
		t.Fatalf("blocking report failed: %v", err)
	}
	if got := d.View().Name; got != "third" {
		t.Fatalf("after updates: got %q, want %q", got, "third")
	}
	// the same through the alias name: only a reverse-translated update can land in Name
	if err := inner.wa.BlockingReportNewValue(ctx, inner.fillField("Name_alias9wr876rw3", "viaalias")); err != nil {
		t.Fatalf("blocking report through the alias failed: %v", err)
	}
	if got := d.View().Name; got != "viaalias" {
		t.Fatalf("after alias update: got %q, want %q", got, "viaalias")
	}
	if d.View().Other != 3 {
		t.Fatalf("unrelated field clobbered: %d", d.View().Other)
	}
}

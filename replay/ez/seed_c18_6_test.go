// place in: ez/
package ez

import (
	"context"
	"flag"
	"os"
	"path/filepath"
	"testing"
	"time"
)

// The field names are unique to this file because the flags end up in the
// process-wide flag.CommandLine.
type seedC182Config_r6c18_6 struct {
	Seedc182File  string
	Seedc182Level int
	Seedc182Name  string
	Seedc182Zone  string
}

func (c *seedC182Config_r6c18_6) ConfigPath() (string, bool) {
	return c.Seedc182File, c.Seedc182File != ""
}

func seedC182WriteFile_r6c18_6(t *testing.T, contents string) string {
	t.Helper()
	path := filepath.Join(t.TempDir(), "cfg.json")
	if err := os.WriteFile(path, []byte(contents), 0o600); err != nil {
		t.Fatal(err)
	}
	return path
}

func seedC182SetFlag_r6c18_6(t *testing.T, name, val string) {
	t.Helper()
	// the test binary's command line has been parsed already, so emulate
	// "-name=val" on the command line with flag.Set (which marks the flag
	// as explicitly set, exactly like parsing it would).
	if err := flag.Set(name, val); err != nil {
		t.Fatalf("failed to set flag %q: %s", name, err)
	}
}

// defaults < file < environment < flags has to hold for every call of an ez
// entry point, including when the flags are already present in the
// flag.CommandLine FlagSet (because the application registered them itself
// "to override our behavior", or because the config is (re-)initialised a
// second time in the same process).
func TestDemoSeedC18FlagsWinWhenAlreadyRegistered_r6c18_6(t *testing.T) {
	ctx, cancel := context.WithTimeout(context.Background(), 15*time.Second)
	defer cancel()

	path := seedC182WriteFile_r6c18_6(t,
		`{"Seedc182Level": 20, "Seedc182Name": "name-from-file", "Seedc182Zone": "zone-from-file"}`)
	t.Setenv("SEEDC182_LEVEL", "30")
	t.Setenv("SEEDC182_NAME", "name-from-env")

	// the application registers one of the flags on its own (custom help
	// text); dials must leave it alone but still read it.
	if flag.Lookup("seedc182-level") == nil {
		flag.Int("seedc182-level", 7, "verbosity (registered by the application)")
	}

	mkDefaults := func() *seedC182Config_r6c18_6 {
		return &seedC182Config_r6c18_6{
			Seedc182File:  path,
			Seedc182Level: 10,
			Seedc182Name:  "name-from-default",
			Seedc182Zone:  "zone-from-default",
		}
	}

	// first initialisation: -seedc182-level=40 on the command line
	seedC182SetFlag_r6c18_6(t, "seedc182-level", "40")
	d1, err := JSONConfigEnvFlag(ctx, mkDefaults(), Params[seedC182Config_r6c18_6]{})
	if err != nil {
		t.Fatalf("first init failed: %s", err)
	}
	// default, file, env, flag -> flag
	if got := d1.View().Seedc182Level; got != 40 {
		t.Errorf("first init (application-registered flag): Seedc182Level = %d; want 40 (the flag); view %+v",
			got, *d1.View())
	}

	// second initialisation in the same process: all of the flags exist
	// already; -seedc182-name and -seedc182-zone are passed as well.
	seedC182SetFlag_r6c18_6(t, "seedc182-name", "name-from-flag")
	seedC182SetFlag_r6c18_6(t, "seedc182-zone", "zone-from-flag")
	d2, err := JSONConfigEnvFlag(ctx, mkDefaults(), Params[seedC182Config_r6c18_6]{})
	if err != nil {
		t.Fatalf("second init failed: %s", err)
	}
	exp2 := seedC182Config_r6c18_6{
		Seedc182File:  path,
		Seedc182Level: 40,
		Seedc182Name:  "name-from-flag", // default, file, env, flag -> flag
		Seedc182Zone:  "zone-from-flag", // default, file, flag -> flag
	}
	if got := *d2.View(); got != exp2 {
		t.Errorf("second init (flags registered by the first init):\n got %+v\nwant %+v", got, exp2)
	}
}

// The config file path itself may be given by a flag that exists already.
func TestDemoSeedC18ConfigPathFromAlreadyRegisteredFlag_r6c18_6(t *testing.T) {
	ctx, cancel := context.WithTimeout(context.Background(), 15*time.Second)
	defer cancel()

	type cfgT = seedC182PathConfig_r6c18_6
	path := seedC182WriteFile_r6c18_6(t, `{"Seedc182pVal": "from-file"}`)

	// the application registers the config-file flag on its own
	if flag.Lookup("seedc182p-file") == nil {
		flag.String("seedc182p-file", "", "config file (registered by the application)")
	}
	seedC182SetFlag_r6c18_6(t, "seedc182p-file", path)
	d, err := JSONConfigEnvFlag(ctx, &cfgT{Seedc182pVal: "from-default"}, Params[cfgT]{})
	if err != nil {
		t.Fatalf("init failed: %s", err)
	}
	exp := cfgT{Seedc182pFile: path, Seedc182pVal: "from-file"}
	if got := *d.View(); got != exp {
		t.Errorf("got %+v\nwant %+v", got, exp)
	}
}

type seedC182PathConfig_r6c18_6 struct {
	Seedc182pFile string
	Seedc182pVal  string
}

func (c *seedC182PathConfig_r6c18_6) ConfigPath() (string, bool) {
	return c.Seedc182pFile, c.Seedc182pFile != ""
}

// place in: ez/
package ez

import (
	"context"
	"os"
	"path/filepath"
	"testing"

	"github.com/vimeo/dials/sources/flag"
)

type demoSeedFlagCfg struct {
	Path    string `dials:"DEMOSEED2_CONFIGPATH"`
	Workers int    `dials:"DEMOSEED2_WORKERS"`
	Verbose bool   `dials:"DEMOSEED2_VERBOSE"`
	Name    string `dials:"DEMOSEED2_NAME"`
}

func (c *demoSeedFlagCfg) ConfigPath() (string, bool) { return c.Path, true }

// A flag that was explicitly passed on the command line must win over the
// environment and the file, even when the value passed happens to be the same
// as the default registered for that flag.
func TestDemoSeedExplicitFlagEqualToDefaultWins(t *testing.T) {
	ctx, cancel := context.WithCancel(context.Background())
	defer cancel()

	dir := t.TempDir()
	path := filepath.Join(dir, "cfg.json")
	body := `{"DEMOSEED2_WORKERS": 7, "DEMOSEED2_VERBOSE": true, "DEMOSEED2_NAME": "from-file"}`
	if err := os.WriteFile(path, []byte(body), 0o600); err != nil {
		t.Fatal(err)
	}

	t.Setenv("DEMOSEED2_WORKERS", "9")
	t.Setenv("DEMOSEED2_NAME", "from-env")

	// defaults: Workers=0, Verbose=false, Name=""
	c := &demoSeedFlagCfg{Path: path}
	fs, fsErr := flag.NewSetWithArgs(flag.DefaultFlagNameConfig(), c, []string{
		"-DEMOSEED2_WORKERS=0", "-DEMOSEED2_VERBOSE=false", "-DEMOSEED2_NAME=",
	})
	if fsErr != nil {
		t.Fatal(fsErr)
	}
	d, err := JSONConfigEnvFlag(ctx, c, Params[demoSeedFlagCfg]{FlagSource: fs})
	if err != nil {
		t.Fatalf("unexpected error: %s", err)
	}
	got := *d.View()
	want := demoSeedFlagCfg{Path: path, Workers: 0, Verbose: false, Name: ""}
	if got != want {
		t.Errorf("flags must override env and file;\n got: %+v\nwant: %+v", got, want)
	}

	// control: a flag value different from the default
	c2 := &demoSeedFlagCfg{Path: path}
	fs2, fsErr2 := flag.NewSetWithArgs(flag.DefaultFlagNameConfig(), c2, []string{"-DEMOSEED2_WORKERS=3"})
	if fsErr2 != nil {
		t.Fatal(fsErr2)
	}
	d2, err2 := JSONConfigEnvFlag(ctx, c2, Params[demoSeedFlagCfg]{FlagSource: fs2})
	if err2 != nil {
		t.Fatalf("unexpected error: %s", err2)
	}
	got2 := *d2.View()
	want2 := demoSeedFlagCfg{Path: path, Workers: 3, Verbose: true, Name: "from-env"}
	if got2 != want2 {
		t.Errorf("control case;\n got: %+v\nwant: %+v", got2, want2)
	}
}

// Drop this file into ez/ (package ez) as ez/zz_demo_test.go and run:
//   go test -vet=off -count=1 -run TestDemoEnvOverridesFile -timeout 60s ./ez/
package ez

import (
	"context"
	"os"
	"path/filepath"
	"testing"
	"time"

	"github.com/vimeo/dials/sources/flag"
)

type demoPrecedenceConfig struct {
	Path string `dials:"demo_path"`
	// A: default + file + env        -> env must win
	A string `dials:"demo_a"`
	// B: default + file + env + flag -> flag must win
	B string `dials:"demo_b"`
	// C: default + file              -> file must win
	C string `dials:"demo_c"`
	// D: default only
	D string `dials:"demo_d"`
}

func (c *demoPrecedenceConfig) ConfigPath() (string, bool) {
	return c.Path, c.Path != ""
}

// defaults < file < environment < flags: a leaf set both in the config file
// and in the environment must take the environment's value.
func TestDemoEnvOverridesFile(t *testing.T) {
	ctx, cancel := context.WithTimeout(context.Background(), 30*time.Second)
	defer cancel()

	path := filepath.Join(t.TempDir(), "demo.json")
	fileContents := `{"demo_a": "a-file", "demo_b": "b-file", "demo_c": "c-file"}`
	if err := os.WriteFile(path, []byte(fileContents), 0o600); err != nil {
		t.Fatal(err)
	}

	t.Setenv("DEMO_PATH", path)
	t.Setenv("DEMO_A", "a-env")
	t.Setenv("DEMO_B", "b-env")

	defaults := &demoPrecedenceConfig{
		A: "a-default", B: "b-default", C: "c-default", D: "d-default",
	}

	fset, flagErr := flag.NewSetWithArgs(flag.DefaultFlagNameConfig(), defaults, []string{"--demo_b=b-flag"})
	if flagErr != nil {
		t.Fatalf("flag set: %s", flagErr)
	}

	d, err := JSONConfigEnvFlag(ctx, defaults, Params[demoPrecedenceConfig]{FlagSource: fset})
	if err != nil {
		t.Fatalf("unexpected error: %s", err)
	}

	got := *d.View()
	want := demoPrecedenceConfig{
		Path: path,
		A:    "a-env",
		B:    "b-flag",
		C:    "c-file",
		D:    "d-default",
	}
	if got != want {
		t.Errorf("wrong precedence (want defaults < file < env < flags):\n got: %+v\nwant: %+v", got, want)
	}
}

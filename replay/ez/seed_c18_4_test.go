// place in: ez/
package ez

import (
	"context"
	"fmt"
	"os"
	"path/filepath"
	"testing"
	"time"

	"github.com/vimeo/dials/sources/flag"
)

type demoSeedCBCfg struct {
	Path  string `dials:"DEMOSEED3_CONFIGPATH"`
	Limit int    `dials:"DEMOSEED3_LIMIT"`
	Owner string `dials:"DEMOSEED3_OWNER"`
}

func (c *demoSeedCBCfg) ConfigPath() (string, bool) { return c.Path, true }

// Only valid once the file has been stacked in.
func (c *demoSeedCBCfg) Verify() error {
	if c.Limit == 0 {
		return fmt.Errorf("limit unset")
	}
	return nil
}

// With file-watching on, the global OnNewConfig callback must never be handed
// the file-less intermediate config (defaults+env+flags), neither as newConfig
// nor as oldConfig: the oldConfig of the first callback after the entry point
// returns has to be the fully stacked config that View() returned.
func TestDemoSeedGlobalCallbackNeverSeesIntermediateConfig(t *testing.T) {
	ctx, cancel := context.WithCancel(context.Background())
	defer cancel()

	dir := t.TempDir()
	path := filepath.Join(dir, "cfg.json")
	if err := os.WriteFile(path, []byte(`{"DEMOSEED3_LIMIT": 10, "DEMOSEED3_OWNER": "file-v1"}`), 0o600); err != nil {
		t.Fatal(err)
	}

	type cbArgs struct{ oldCfg, newCfg *demoSeedCBCfg }
	cbCh := make(chan cbArgs, 8)

	c := &demoSeedCBCfg{Path: path}
	fs, fsErr := flag.NewSetWithArgs(flag.DefaultFlagNameConfig(), c, []string{})
	if fsErr != nil {
		t.Fatal(fsErr)
	}
	d, err := JSONConfigEnvFlag(ctx, c, Params[demoSeedCBCfg]{
		FlagSource:      fs,
		WatchConfigFile: true,
		OnNewConfig: func(ctx context.Context, oldCfg, newCfg *demoSeedCBCfg) {
			cbCh <- cbArgs{oldCfg: oldCfg, newCfg: newCfg}
		},
	})
	if err != nil {
		t.Fatalf("unexpected error: %s", err)
	}
	first := d.View()
	if want := (demoSeedCBCfg{Path: path, Limit: 10, Owner: "file-v1"}); *first != want {
		t.Fatalf("unexpected first visible config: %+v; want %+v", *first, want)
	}

	// replace the file (atomically)
	tmp := filepath.Join(dir, "_tmp_cfg.json")
	if err := os.WriteFile(tmp, []byte(`{"DEMOSEED3_LIMIT": 20, "DEMOSEED3_OWNER": "file-v2"}`), 0o600); err != nil {
		t.Fatal(err)
	}
	if err := os.Rename(tmp, path); err != nil {
		t.Fatal(err)
	}

	select {
	case args := <-cbCh:
		if want := (demoSeedCBCfg{Path: path, Limit: 20, Owner: "file-v2"}); *args.newCfg != want {
			t.Errorf("unexpected newConfig: %+v; want %+v", *args.newCfg, want)
		}
		if args.oldCfg == nil {
			t.Fatalf("nil oldConfig")
		}
		if *args.oldCfg != *first {
			t.Errorf("OnNewConfig was handed the file-less intermediate config as oldConfig: %+v; want the first visible config %+v",
				*args.oldCfg, *first)
		}
		if vfErr := args.oldCfg.Verify(); vfErr != nil {
			t.Errorf("oldConfig handed to OnNewConfig was never verifiable: %s", vfErr)
		}
	case <-time.After(10 * time.Second):
		t.Fatal("timed out waiting for OnNewConfig")
	}
}

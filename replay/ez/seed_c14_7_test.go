// place in: ez/
package ez

import (
	"context"
	"os"
	"path/filepath"
	"strings"
	"testing"
	"time"

	"github.com/vimeo/dials/sources/flag"
	"github.com/vimeo/dials/tagformat/caseconversion"
)

type seedC143Inner_r6c14_7 struct {
	MaxConns int `dials:"maxConns" dialsalias:"connLimit"`
}

// seedC143Config uses lowerCamelCase dials tags; the file is expected to use
// whatever casing Params.FileFieldNameEncoder asks for (for the primary names
// and for the alias names alike).
type seedC143Config_r6c14_7 struct {
	SeedC143Path string                `dials:"seedC143Path"`
	ListenAddr   string                `dials:"seedC143ListenAddr" dialsalias:"seedC143BindAddr"`
	Backend      seedC143Inner_r6c14_7 `dials:"seedC143Backend"`
}

func (c *seedC143Config_r6c14_7) ConfigPath() (string, bool) {
	return c.SeedC143Path, true
}

type seedC143Result_r6c14_7 struct {
	cfg *seedC143Config_r6c14_7
	err error
}

func seedC143Load_r6c14_7(t *testing.T, fileContents string, params Params[seedC143Config_r6c14_7]) (*seedC143Config_r6c14_7, error) {
	t.Helper()
	path := filepath.Join(t.TempDir(), "seedc143.json")
	if err := os.WriteFile(path, []byte(fileContents), 0o600); err != nil {
		t.Fatalf("failed to write config file: %s", err)
	}

	ctx, cancel := context.WithTimeout(context.Background(), 15*time.Second)
	defer cancel()

	c := &seedC143Config_r6c14_7{SeedC143Path: path}
	// private flag-set so we do not touch flag.CommandLine
	fset, flagErr := flag.NewSetWithArgs(flag.DefaultFlagNameConfig(), c, []string{})
	if flagErr != nil {
		t.Fatalf("failed to set up flag source: %s", flagErr)
	}
	params.FlagSource = fset

	resCh := make(chan seedC143Result_r6c14_7, 1)
	go func() {
		d, err := JSONConfigEnvFlag(ctx, c, params)
		if err != nil {
			resCh <- seedC143Result_r6c14_7{err: err}
			return
		}
		resCh <- seedC143Result_r6c14_7{cfg: d.View()}
	}()
	select {
	case r := <-resCh:
		return r.cfg, r.err
	case <-time.After(18 * time.Second):
		t.Fatalf("timed out waiting for ez to load the config")
		return nil, nil
	}
}

func TestDemoSeedC14AliasInFileWithFieldNameEncoder_r6c14_7(t *testing.T) {
	for _, tbl := range []struct {
		name   string
		params Params[seedC143Config_r6c14_7]
		// file keys as the file's naming scheme spells them
		listenAddr, bindAddr, backend, maxConns, connLimit string
	}{
		{
			name:       "no_encoder",
			params:     Params[seedC143Config_r6c14_7]{},
			listenAddr: "seedC143ListenAddr", bindAddr: "seedC143BindAddr",
			backend: "seedC143Backend", maxConns: "maxConns", connLimit: "connLimit",
		},
		{
			name: "snake_case_encoder",
			params: Params[seedC143Config_r6c14_7]{
				DialsTagNameDecoder:  caseconversion.DecodeLowerCamelCase,
				FileFieldNameEncoder: caseconversion.EncodeLowerSnakeCase,
			},
			listenAddr: "seed_c143_listen_addr", bindAddr: "seed_c143_bind_addr",
			backend: "seed_c143_backend", maxConns: "max_conns", connLimit: "conn_limit",
		},
		{
			name: "kebab_case_encoder",
			params: Params[seedC143Config_r6c14_7]{
				DialsTagNameDecoder:  caseconversion.DecodeLowerCamelCase,
				FileFieldNameEncoder: caseconversion.EncodeKebabCase,
			},
			listenAddr: "seed-c143-listen-addr", bindAddr: "seed-c143-bind-addr",
			backend: "seed-c143-backend", maxConns: "max-conns", connLimit: "conn-limit",
		},
	} {
		tbl := tbl
		t.Run(tbl.name, func(t *testing.T) {
			// neither
			cfg, err := seedC143Load_r6c14_7(t, `{}`, tbl.params)
			if err != nil {
				t.Fatalf("neither: unexpected error: %s", err)
			}
			if cfg.ListenAddr != "" || cfg.Backend.MaxConns != 0 {
				t.Errorf("neither: expected fields unset; got %+v", *cfg)
			}

			// primary names
			cfg, err = seedC143Load_r6c14_7(t,
				`{"`+tbl.listenAddr+`": "prim", "`+tbl.backend+`": {"`+tbl.maxConns+`": 3}}`, tbl.params)
			if err != nil {
				t.Fatalf("primary: unexpected error: %s", err)
			}
			if cfg.ListenAddr != "prim" || cfg.Backend.MaxConns != 3 {
				t.Errorf("primary: unexpected config %+v", *cfg)
			}

			// alias names
			cfg, err = seedC143Load_r6c14_7(t,
				`{"`+tbl.bindAddr+`": "ali", "`+tbl.backend+`": {"`+tbl.connLimit+`": 4}}`, tbl.params)
			if err != nil {
				t.Fatalf("alias: unexpected error: %s", err)
			}
			if cfg.ListenAddr != "ali" {
				t.Errorf("alias: top-level value supplied under the alias name did not arrive: %+v", *cfg)
			}
			if cfg.Backend.MaxConns != 4 {
				t.Errorf("alias: nested value supplied under the alias name did not arrive: %+v", *cfg)
			}

			// both (top-level)
			cfg, err = seedC143Load_r6c14_7(t,
				`{"`+tbl.listenAddr+`": "prim", "`+tbl.bindAddr+`": "ali"}`, tbl.params)
			if err == nil {
				t.Errorf("both: expected an error, got config %+v", *cfg)
			} else if !strings.Contains(err.Error(), "ListenAddr") {
				t.Errorf("both: error does not name the field: %s", err)
			}

			// both (nested)
			cfg, err = seedC143Load_r6c14_7(t,
				`{"`+tbl.backend+`": {"`+tbl.maxConns+`": 3, "`+tbl.connLimit+`": 4}}`, tbl.params)
			if err == nil {
				t.Errorf("nested both: expected an error, got config %+v", *cfg)
			} else if !strings.Contains(err.Error(), "MaxConns") {
				t.Errorf("nested both: error does not name the field: %s", err)
			}
		})
	}
}

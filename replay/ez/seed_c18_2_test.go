// place in: ez/
package ez

import (
	"context"
	"os"
	"path/filepath"
	"testing"

	"github.com/vimeo/dials/sources/flag"
)

type demoSeedPathCfg struct {
	Path string `dials:"DEMOSEED1_CONFIGPATH"`
	Val1 int    `dials:"DemoSeed1Val1"`
}

func (c *demoSeedPathCfg) ConfigPath() (string, bool) { return c.Path, true }

// The config-file path must be taken from ConfigPath() evaluated on
// defaults + environment + flags, not on the defaults alone.
func TestDemoSeedConfigPathFromStackedConfig(t *testing.T) {
	ctx, cancel := context.WithCancel(context.Background())
	defer cancel()

	dir := t.TempDir()
	defPath := filepath.Join(dir, "default.json")
	envPath := filepath.Join(dir, "fromenv.json")
	flagPath := filepath.Join(dir, "fromflag.json")
	for p, body := range map[string]string{
		defPath:  `{"DemoSeed1Val1": 1}`,
		envPath:  `{"DemoSeed1Val1": 2}`,
		flagPath: `{"DemoSeed1Val1": 3}`,
	} {
		if err := os.WriteFile(p, []byte(body), 0o600); err != nil {
			t.Fatal(err)
		}
	}

	t.Run("env_overrides_default_path", func(t *testing.T) {
		t.Setenv("DEMOSEED1_CONFIGPATH", envPath)
		c := &demoSeedPathCfg{Path: defPath}
		fs, fsErr := flag.NewSetWithArgs(flag.DefaultFlagNameConfig(), c, []string{})
		if fsErr != nil {
			t.Fatal(fsErr)
		}
		d, err := JSONConfigEnvFlag(ctx, c, Params[demoSeedPathCfg]{FlagSource: fs})
		if err != nil {
			t.Fatalf("unexpected error: %s", err)
		}
		got := d.View()
		if got.Path != envPath || got.Val1 != 2 {
			t.Errorf("expected file %q (Val1=2) to be read; got Path=%q Val1=%d", envPath, got.Path, got.Val1)
		}
	})
	t.Run("flag_overrides_env_and_default_path", func(t *testing.T) {
		t.Setenv("DEMOSEED1_CONFIGPATH", envPath)
		c := &demoSeedPathCfg{Path: defPath}
		fs, fsErr := flag.NewSetWithArgs(flag.DefaultFlagNameConfig(), c, []string{"-DEMOSEED1_CONFIGPATH=" + flagPath})
		if fsErr != nil {
			t.Fatal(fsErr)
		}
		d, err := JSONConfigEnvFlag(ctx, c, Params[demoSeedPathCfg]{FlagSource: fs})
		if err != nil {
			t.Fatalf("unexpected error: %s", err)
		}
		got := d.View()
		if got.Path != flagPath || got.Val1 != 3 {
			t.Errorf("expected file %q (Val1=3) to be read; got Path=%q Val1=%d", flagPath, got.Path, got.Val1)
		}
	})
	t.Run("default_path_only", func(t *testing.T) {
		c := &demoSeedPathCfg{Path: defPath}
		fs, fsErr := flag.NewSetWithArgs(flag.DefaultFlagNameConfig(), c, []string{})
		if fsErr != nil {
			t.Fatal(fsErr)
		}
		d, err := JSONConfigEnvFlag(ctx, c, Params[demoSeedPathCfg]{FlagSource: fs})
		if err != nil {
			t.Fatalf("unexpected error: %s", err)
		}
		got := d.View()
		if got.Path != defPath || got.Val1 != 1 {
			t.Errorf("expected file %q (Val1=1) to be read; got Path=%q Val1=%d", defPath, got.Path, got.Val1)
		}
	})
}

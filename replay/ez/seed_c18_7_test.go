// place in: ez/
package ez

import (
	"context"
	"os"
	"path/filepath"
	"sync"
	"testing"
	"time"

	"github.com/vimeo/dials/sources/flag"
)

type seedC183Config_r6c18_7 struct {
	CfgFile string `dials:"SEEDC183_CFGFILE"`
	Alpha   int    `dials:"SEEDC183_ALPHA"`
	Beta    string `dials:"SEEDC183_BETA"`
}

func (c *seedC183Config_r6c18_7) ConfigPath() (string, bool) {
	return c.CfgFile, c.CfgFile != ""
}

var (
	seedC183VerifyMu_r6c18_7   sync.Mutex
	seedC183VerifySeen_r6c18_7 []seedC183Config_r6c18_7
)

// Verify accepts everything, but records what it was shown.
func (c *seedC183Config_r6c18_7) Verify() error {
	seedC183VerifyMu_r6c18_7.Lock()
	defer seedC183VerifyMu_r6c18_7.Unlock()
	seedC183VerifySeen_r6c18_7 = append(seedC183VerifySeen_r6c18_7, *c)
	return nil
}

func seedC183ResetSeen_r6c18_7() {
	seedC183VerifyMu_r6c18_7.Lock()
	defer seedC183VerifyMu_r6c18_7.Unlock()
	seedC183VerifySeen_r6c18_7 = nil
}

func seedC183Seen_r6c18_7() []seedC183Config_r6c18_7 {
	seedC183VerifyMu_r6c18_7.Lock()
	defer seedC183VerifyMu_r6c18_7.Unlock()
	return append([]seedC183Config_r6c18_7(nil), seedC183VerifySeen_r6c18_7...)
}

// An undecodable config file must make the ez entry points fail, with and
// without file watching; in particular they must not hand out (or run Verify
// on) the file-less defaults+environment+flags config instead.
func TestDemoSeedC18InvalidFileIsAnErrorAlsoWhenWatching_r6c18_7(t *testing.T) {
	for _, tc := range []struct {
		name, file, contents string
	}{
		{name: "json", file: "cfg.json", contents: `{"SEEDC183_ALPHA": 11, "SEEDC183_BETA": `},
		{name: "yaml", file: "cfg.yaml", contents: "SEEDC183_ALPHA: [11\nSEEDC183_BETA: {{\n"},
		{name: "toml", file: "cfg.toml", contents: "SEEDC183_ALPHA = = 11\n"},
		{name: "cue", file: "cfg.cue", contents: "SEEDC183_ALPHA: 11 &\n"},
	} {
		for _, watch := range []bool{false, true} {
			tc, watch := tc, watch
			name := tc.name + "/nowatch"
			if watch {
				name = tc.name + "/watch"
			}
			t.Run(name, func(t *testing.T) {
				ctx, cancel := context.WithTimeout(context.Background(), 15*time.Second)
				defer cancel()

				path := filepath.Join(t.TempDir(), tc.file)
				if err := os.WriteFile(path, []byte(tc.contents), 0o600); err != nil {
					t.Fatal(err)
				}
				t.Setenv("SEEDC183_BETA", "from-env")
				seedC183ResetSeen_r6c18_7()

				defaults := &seedC183Config_r6c18_7{CfgFile: path, Alpha: 1, Beta: "from-default"}
				fs, fsErr := flag.NewSetWithArgs(flag.DefaultFlagNameConfig(), defaults, nil)
				if fsErr != nil {
					t.Fatal(fsErr)
				}
				cbCfgs := make(chan seedC183Config_r6c18_7, 16)
				d, err := FileExtensionDecoderConfigEnvFlag(ctx, defaults, Params[seedC183Config_r6c18_7]{
					FlagSource:      fs,
					WatchConfigFile: watch,
					OnNewConfig: func(_ context.Context, _, n *seedC183Config_r6c18_7) {
						select {
						case cbCfgs <- *n:
						default:
						}
					},
				})
				if err == nil {
					t.Errorf("no error for an undecodable config file (contents %q); got a Dials with view %+v",
						tc.contents, *d.View())
				} else if d != nil {
					t.Errorf("non-nil Dials returned along with error %q", err)
				}
				for _, c := range seedC183Seen_r6c18_7() {
					t.Errorf("Verify() was run on the file-less config %+v", c)
				}
				select {
				case c := <-cbCfgs:
					t.Errorf("OnNewConfig saw config %+v", c)
				default:
				}
			})
		}
	}
}

// Sanity check for the above: the very same setup with decodable files works
// and is verified exactly on the fully stacked config.
func TestDemoSeedC18ValidFileControl_r6c18_7(t *testing.T) {
	for _, watch := range []bool{false, true} {
		ctx, cancel := context.WithTimeout(context.Background(), 15*time.Second)
		path := filepath.Join(t.TempDir(), "cfg.json")
		if err := os.WriteFile(path, []byte(`{"SEEDC183_ALPHA": 11, "SEEDC183_BETA": "from-file"}`), 0o600); err != nil {
			t.Fatal(err)
		}
		t.Setenv("SEEDC183_BETA", "from-env")
		seedC183ResetSeen_r6c18_7()
		defaults := &seedC183Config_r6c18_7{CfgFile: path, Alpha: 1, Beta: "from-default"}
		fs, fsErr := flag.NewSetWithArgs(flag.DefaultFlagNameConfig(), defaults, nil)
		if fsErr != nil {
			t.Fatal(fsErr)
		}
		d, err := FileExtensionDecoderConfigEnvFlag(ctx, defaults, Params[seedC183Config_r6c18_7]{
			FlagSource: fs, WatchConfigFile: watch})
		if err != nil {
			t.Fatalf("watch=%t: unexpected error: %s", watch, err)
		}
		exp := seedC183Config_r6c18_7{CfgFile: path, Alpha: 11, Beta: "from-env"}
		if got := *d.View(); got != exp {
			t.Errorf("watch=%t: got %+v; want %+v", watch, got, exp)
		}
		for _, c := range seedC183Seen_r6c18_7() {
			if c != exp {
				t.Errorf("watch=%t: Verify() saw %+v; want only %+v", watch, c, exp)
			}
		}
		cancel()
	}
}

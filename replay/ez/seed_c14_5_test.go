// place in: ez/
package ez

import (
	"context"
	"os"
	"path/filepath"
	"strings"
	"testing"
	"time"

	"github.com/vimeo/dials/sources/flag"
)

// seedC141Config is read through ez with DisableAutoSetToSlice set and no
// FileFieldNameEncoder (so no option asks for an extra mangler).
type seedC141Config_r6c14_5 struct {
	SeedC141Path string `dials:"seedc141_path"`
	SeedC141Name string `dials:"seedc141_name" dialsalias:"seedc141_old_name"`
	SeedC141Size int    `dials:"seedc141_size" dialsalias:"seedc141_old_size"`
}

func (c *seedC141Config_r6c14_5) ConfigPath() (string, bool) {
	return c.SeedC141Path, true
}

type seedC141Result_r6c14_5 struct {
	cfg *seedC141Config_r6c14_5
	err error
}

func seedC141Load_r6c14_5(t *testing.T, fileContents string, params Params[seedC141Config_r6c14_5]) (*seedC141Config_r6c14_5, error) {
	t.Helper()
	path := filepath.Join(t.TempDir(), "seedc141.json")
	if err := os.WriteFile(path, []byte(fileContents), 0o600); err != nil {
		t.Fatalf("failed to write config file: %s", err)
	}

	ctx, cancel := context.WithTimeout(context.Background(), 15*time.Second)
	defer cancel()

	c := &seedC141Config_r6c14_5{SeedC141Path: path}
	// private flag-set so we do not touch flag.CommandLine
	fset, flagErr := flag.NewSetWithArgs(flag.DefaultFlagNameConfig(), c, []string{})
	if flagErr != nil {
		t.Fatalf("failed to set up flag source: %s", flagErr)
	}
	params.FlagSource = fset

	resCh := make(chan seedC141Result_r6c14_5, 1)
	go func() {
		d, err := JSONConfigEnvFlag(ctx, c, params)
		if err != nil {
			resCh <- seedC141Result_r6c14_5{err: err}
			return
		}
		resCh <- seedC141Result_r6c14_5{cfg: d.View()}
	}()
	select {
	case r := <-resCh:
		return r.cfg, r.err
	case <-time.After(18 * time.Second):
		t.Fatalf("timed out waiting for ez to load the config")
		return nil, nil
	}
}

func TestDemoSeedC14AliasInFileWithAutoSetToSliceDisabled_r6c14_5(t *testing.T) {
	for _, params := range []struct {
		name string
		p    Params[seedC141Config_r6c14_5]
	}{
		{name: "defaults", p: Params[seedC141Config_r6c14_5]{}},
		{name: "DisableAutoSetToSlice", p: Params[seedC141Config_r6c14_5]{DisableAutoSetToSlice: true}},
	} {
		params := params
		t.Run(params.name, func(t *testing.T) {
			// neither
			cfg, err := seedC141Load_r6c14_5(t, `{}`, params.p)
			if err != nil {
				t.Fatalf("neither: unexpected error: %s", err)
			}
			if cfg.SeedC141Name != "" || cfg.SeedC141Size != 0 {
				t.Errorf("neither: expected fields unset; got %+v", *cfg)
			}

			// primary
			cfg, err = seedC141Load_r6c14_5(t, `{"seedc141_name": "prim", "seedc141_size": 3}`, params.p)
			if err != nil {
				t.Fatalf("primary: unexpected error: %s", err)
			}
			if cfg.SeedC141Name != "prim" || cfg.SeedC141Size != 3 {
				t.Errorf("primary: unexpected config %+v", *cfg)
			}

			// alias
			cfg, err = seedC141Load_r6c14_5(t, `{"seedc141_old_name": "ali", "seedc141_old_size": 4}`, params.p)
			if err != nil {
				t.Fatalf("alias: unexpected error: %s", err)
			}
			if cfg.SeedC141Name != "ali" || cfg.SeedC141Size != 4 {
				t.Errorf("alias: value supplied under the alias name did not arrive: %+v", *cfg)
			}

			// mixed: one field by primary, the other by alias
			cfg, err = seedC141Load_r6c14_5(t, `{"seedc141_name": "prim", "seedc141_old_size": 5}`, params.p)
			if err != nil {
				t.Fatalf("mixed: unexpected error: %s", err)
			}
			if cfg.SeedC141Name != "prim" || cfg.SeedC141Size != 5 {
				t.Errorf("mixed: unexpected config %+v", *cfg)
			}

			// both
			cfg, err = seedC141Load_r6c14_5(t, `{"seedc141_name": "prim", "seedc141_old_name": "ali"}`, params.p)
			if err == nil {
				t.Errorf("both: expected an error, got config %+v", *cfg)
			} else if !strings.Contains(err.Error(), "SeedC141Name") {
				t.Errorf("both: error does not name the field: %s", err)
			}
		})
	}
}

// place in: ez/
package ez

import (
	"context"
	"os"
	"path/filepath"
	"testing"
	"time"

	"github.com/vimeo/dials/sources/flag"
)

type seedC181Config_r6c18_5 struct {
	CfgFile string `dials:"SEEDC181_CFGFILE"`
	Alpha   int    `dials:"SEEDC181_ALPHA"`
	Beta    string `dials:"SEEDC181_BETA"`
}

func (c *seedC181Config_r6c18_5) ConfigPath() (string, bool) {
	return c.CfgFile, c.CfgFile != ""
}

func seedC181FlagSet_r6c18_5(t *testing.T, tmpl *seedC181Config_r6c18_5, args []string) *flag.Set {
	t.Helper()
	fs, err := flag.NewSetWithArgs(flag.DefaultFlagNameConfig(), tmpl, args)
	if err != nil {
		t.Fatalf("failed to set up flags: %s", err)
	}
	return fs
}

// Without file watching the returned Dials must not have a stale value parked
// in its Events() channel: the value generated while the file source was being
// integrated (before verification) has to be drained by the entry point.
func TestDemoSeedC18EventsEmptyAfterNonWatchingInit_r6c18_5(t *testing.T) {
	ctx, cancel := context.WithTimeout(context.Background(), 15*time.Second)
	defer cancel()

	dir := t.TempDir()
	for _, tc := range []struct {
		name, file, contents string
	}{
		{name: "json", file: "cfg.json", contents: `{"SEEDC181_ALPHA": 11, "SEEDC181_BETA": "from-file"}`},
		{name: "yaml", file: "cfg.yaml", contents: "SEEDC181_ALPHA: 11\nSEEDC181_BETA: from-file\n"},
		{name: "toml", file: "cfg.toml", contents: "SEEDC181_ALPHA = 11\nSEEDC181_BETA = \"from-file\"\n"},
	} {
		tc := tc
		t.Run(tc.name, func(t *testing.T) {
			path := filepath.Join(dir, tc.file)
			if err := os.WriteFile(path, []byte(tc.contents), 0o600); err != nil {
				t.Fatal(err)
			}
			t.Setenv("SEEDC181_BETA", "from-env")

			defaults := &seedC181Config_r6c18_5{CfgFile: path, Alpha: 1, Beta: "from-default"}
			fs := seedC181FlagSet_r6c18_5(t, defaults, nil)
			d, err := FileExtensionDecoderConfigEnvFlag(ctx, defaults, Params[seedC181Config_r6c18_5]{FlagSource: fs})
			if err != nil {
				t.Fatalf("unexpected error: %s", err)
			}
			got := d.View()
			if got.Alpha != 11 || got.Beta != "from-env" {
				t.Errorf("unexpected first view: %+v", *got)
			}
			select {
			case c := <-d.Events():
				t.Errorf("Events() exposed a config that was never a new version after return: %+v", *c)
			case <-time.After(100 * time.Millisecond):
			}
		})
	}
}

// place in: ez/
package ez

import (
	"context"
	"os"
	"path/filepath"
	"strings"
	"testing"

	"github.com/vimeo/dials/sources/flag"
)

type demoSeedC14x2Upstream struct {
	Hosts  []string          `dials:"hosts" dialsalias:"servers"`
	Labels map[string]string `dials:"labels" dialsalias:"tags"`
	Port   int               `dials:"port" dialsalias:"legacy_port"`
}

type demoSeedC14x2Cfg struct {
	Path     string                `dials:"DEMOSEEDC14X2PATH"`
	Upstream demoSeedC14x2Upstream `dials:"upstream"`
}

func (c *demoSeedC14x2Cfg) ConfigPath() (string, bool) { return c.Path, c.Path != "" }

func demoSeedC14x2Load(t *testing.T, contents string) (*demoSeedC14x2Cfg, error) {
	t.Helper()
	ctx, cancel := context.WithCancel(context.Background())
	defer cancel()

	p := filepath.Join(t.TempDir(), "cfg.json")
	if err := os.WriteFile(p, []byte(contents), 0o600); err != nil {
		t.Fatalf("failed to write config: %s", err)
	}
	// hermetic flag source: no arguments
	fs, fsErr := flag.NewSetWithArgs(flag.DefaultFlagNameConfig(), &demoSeedC14x2Cfg{}, []string{})
	if fsErr != nil {
		t.Fatalf("failed to set up flags: %s", fsErr)
	}
	d, err := JSONConfigEnvFlag(ctx, &demoSeedC14x2Cfg{Path: p}, Params[demoSeedC14x2Cfg]{FlagSource: fs})
	if err != nil {
		return nil, err
	}
	return d.View(), nil
}

func TestDemoSeedC14BothSuppliedCollections(t *testing.T) {
	// sanity: each name on its own sets the field
	t.Run("primary_only", func(t *testing.T) {
		c, err := demoSeedC14x2Load(t, `{"upstream": {"hosts": ["a", "b"], "labels": {"k": "v"}, "port": 1}}`)
		if err != nil {
			t.Fatalf("unexpected error: %s", err)
		}
		if len(c.Upstream.Hosts) != 2 || c.Upstream.Labels["k"] != "v" || c.Upstream.Port != 1 {
			t.Errorf("unexpected config: %+v", c.Upstream)
		}
	})
	t.Run("alias_only", func(t *testing.T) {
		c, err := demoSeedC14x2Load(t, `{"upstream": {"servers": ["a", "b"], "tags": {"k": "v"}, "legacy_port": 2}}`)
		if err != nil {
			t.Fatalf("unexpected error: %s", err)
		}
		if len(c.Upstream.Hosts) != 2 || c.Upstream.Labels["k"] != "v" || c.Upstream.Port != 2 {
			t.Errorf("unexpected config: %+v", c.Upstream)
		}
	})
	t.Run("both_nonempty", func(t *testing.T) {
		_, err := demoSeedC14x2Load(t, `{"upstream": {"hosts": ["a"], "servers": ["b"]}}`)
		if err == nil || !strings.Contains(err.Error(), "Hosts") {
			t.Errorf("expected an error naming Hosts, got %v", err)
		}
	})

	// The file supplies both the primary and the alias key; one of the two
	// happens to be an empty collection. That is still "both supplied".
	t.Run("both_slice_alias_empty", func(t *testing.T) {
		c, err := demoSeedC14x2Load(t, `{"upstream": {"hosts": ["a"], "servers": []}}`)
		if err == nil {
			t.Fatalf("expected an error for hosts+servers both present; got config %+v", c.Upstream)
		}
		if !strings.Contains(err.Error(), "Hosts") {
			t.Errorf("error does not name the field: %s", err)
		}
	})
	t.Run("both_slice_primary_empty", func(t *testing.T) {
		c, err := demoSeedC14x2Load(t, `{"upstream": {"hosts": [], "servers": ["b"]}}`)
		if err == nil {
			t.Fatalf("expected an error for hosts+servers both present; got config %+v", c.Upstream)
		}
	})
	t.Run("both_map_alias_empty", func(t *testing.T) {
		c, err := demoSeedC14x2Load(t, `{"upstream": {"labels": {"k": "v"}, "tags": {}}}`)
		if err == nil {
			t.Fatalf("expected an error for labels+tags both present; got config %+v", c.Upstream)
		}
		if !strings.Contains(err.Error(), "Labels") {
			t.Errorf("error does not name the field: %s", err)
		}
	})
}

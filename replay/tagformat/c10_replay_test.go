package tagformat

// Replay tests for obligations of the tag-reformatting mangler (C10, C16).  Injected with `go test -overlay`.

import (
	"reflect"
	"testing"

	"github.com/vimeo/dials/tagformat/caseconversion"
	"github.com/vimeo/dials/transform"
)

// a struct tag that github.com/fatih/structtag rejects: Mangle must report the parse error, not drop the field
func TestReplay_C10_ReformatReportsTagParseError(t *testing.T) {
	m := NewTagReformattingMangler("dials", caseconversion.DecodeLowerCamelCase, caseconversion.EncodeLowerSnakeCase)
	sf := reflect.StructField{Name: "FooBar", Type: reflect.TypeOf((*int)(nil)), Tag: `dials:"fooBar" json:"x" oops`}
	out, err := m.Mangle(sf)
	if err == nil && len(out) != 1 {
		t.Fatalf("Mangle returned %d fields and no error for a tag that does not parse", len(out))
	}
}

// the same through a Transformer: translating and reversing must not panic
func TestReplay_C10_ReformatBadTagThroughTransformer(t *testing.T) {
	type cfg struct {
		FooBar *int `dials:"fooBar" json:"x" oops`
		Other  *int
	}
	defer func() {
		if r := recover(); r != nil {
			t.Fatalf("panic: %v", r)
		}
	}()
	m := NewTagReformattingMangler("dials", caseconversion.DecodeLowerCamelCase, caseconversion.EncodeLowerSnakeCase)
	tfm := transform.NewTransformer(reflect.TypeOf(cfg{}), m)
	v, err := tfm.Translate()
	if err != nil {
		return // an error is the correct outcome
	}
	if _, err := tfm.ReverseTranslate(v); err != nil {
		return
	}
}

// place in: tagformat/
package tagformat

import (
	"fmt"
	"reflect"
	"testing"

	"github.com/vimeo/dials/common"
	"github.com/vimeo/dials/tagformat/caseconversion"
	"github.com/vimeo/dials/transform"
)

// No identifier handed to the case-conversion functions may make them panic:
// decoding an identifier and re-encoding it in another case must always return.
func TestDemoSeedC16_2_CaseConversionTrailingSeparator(t *testing.T) {
	idents := []string{"request_timeout_", "a_", "_", "a__b"}
	for _, id := range idents {
		for encName, enc := range map[string]caseconversion.EncodeCasingFunc{
			"EncodeUpperCamelCase": caseconversion.EncodeUpperCamelCase,
			"EncodeLowerCamelCase": caseconversion.EncodeLowerCamelCase,
		} {
			func() {
				defer func() {
					if r := recover(); r != nil {
						t.Errorf("%s(DecodeCasePreservingSnakeCase(%q)) panicked: %v", encName, id, r)
					}
				}()
				words, err := caseconversion.DecodeCasePreservingSnakeCase(id)
				if err != nil {
					return // an error is an acceptable outcome
				}
				out := enc(words)
				t.Logf("%s(%q) = %q", encName, words, out)
			}()
		}
	}
}

// Same thing through a mangler: reformatting a snake-case dials tag with a
// trailing underscore into lowerCamelCase must yield a type or an error.
func TestDemoSeedC16_2_TagReformattingManglerTrailingSeparator(t *testing.T) {
	type config struct {
		Timeout int `dials:"request_timeout_"`
	}
	m := NewTagReformattingMangler(common.DialsTagName,
		caseconversion.DecodeCasePreservingSnakeCase, caseconversion.EncodeLowerCamelCase)
	tfmr := transform.NewTransformer(reflect.TypeOf(config{}), m)

	var (
		val      reflect.Value
		err      error
		panicked interface{}
	)
	func() {
		defer func() { panicked = recover() }()
		val, err = tfmr.Translate()
	}()
	if panicked != nil {
		t.Fatalf("Translate panicked instead of returning a value or an error: %v", panicked)
	}
	if err != nil {
		t.Logf("Translate returned error: %v", err)
		return
	}
	t.Logf("translated tag: %s", fmt.Sprint(val.Type().Field(0).Tag))
}

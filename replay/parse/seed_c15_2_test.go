// place in: parse/
package parse

import (
	"math"
	"testing"
)

// A literal just outside the uint32 range must be rejected, never wrapped.
func TestDemoSeedUint32SliceOutOfRangeRejected(t *testing.T) {
	for _, in := range []string{"4294967296", "1,0x1_0000_0001", " 4294967295 , 8589934591"} {
		out, err := UnsignedIntegralSlice[uint32](in)
		if err == nil {
			t.Errorf("input %q: expected a range error for []uint32; got value %v", in, out)
		}
	}
	// just inside the range must still work
	out, err := UnsignedIntegralSlice[uint32]("4294967295,0")
	if err != nil {
		t.Fatalf("unexpected error for in-range literal: %s", err)
	}
	if len(out) != 2 || out[0] != math.MaxUint32 || out[1] != 0 {
		t.Errorf("unexpected value %v", out)
	}
}

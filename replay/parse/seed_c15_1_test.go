// Drop this file into parse/ (package parse) as zz_demo_test.go and run:
//
//	go test -vet=off -count=1 -run TestZZDemoFloat32CanonicalRoundTrip ./parse/
//
// Property C15: for every float32 value (extremes included), parsing its
// canonical text form returns exactly that value.
package parse

import (
	"math"
	"reflect"
	"strconv"
	"testing"
)

func TestZZDemoFloat32CanonicalRoundTrip(t *testing.T) {
	f32Type := reflect.TypeOf(float32(0))

	for _, want := range []float32{
		0, 1.5, -42.125, 1.123, // ordinary values
		math.SmallestNonzeroFloat32,      // smallest denormal
		math.Float32frombits(0x00800000), // smallest normal
		math.MaxFloat32,                  // largest finite float32 ("3.4028235e+38")
		-math.MaxFloat32,                 // most negative finite float32
		math.Float32frombits(0x7f7ffffe), // just inside the range
		math.Float32frombits(0x15ae43fd), // "7.038531e-26"
		float32(math.Inf(1)), float32(math.Inf(-1)),
	} {
		// canonical text: shortest representation that identifies the float32
		text := strconv.FormatFloat(float64(want), 'g', -1, 32)

		got, err := String(text, f32Type)
		if err != nil {
			t.Errorf("canonical text %q of float32 %v (bits %#08x) rejected: %s",
				text, want, math.Float32bits(want), err)
			continue
		}
		gotF := *(got.Interface().(*float32))
		if math.Float32bits(gotF) != math.Float32bits(want) {
			t.Errorf("canonical text %q parsed to %v (bits %#08x), want %v (bits %#08x)",
				text, gotF, math.Float32bits(gotF), want, math.Float32bits(want))
		}
	}

	// a []float32 goes through the same element parser
	sliceText := strconv.FormatFloat(math.MaxFloat32, 'g', -1, 32) + ",1.5"
	gotSlice, err := String(sliceText, reflect.TypeOf([]float32{}))
	if err != nil {
		t.Errorf("canonical []float32 text %q rejected: %s", sliceText, err)
	} else if !reflect.DeepEqual(gotSlice.Interface(), []float32{math.MaxFloat32, 1.5}) {
		t.Errorf("canonical []float32 text %q parsed to %v", sliceText, gotSlice.Interface())
	}

	// literals outside the float32 range stay rejected (with and without the change)
	for _, lit := range []string{"3.5e+38", "-3.5e+38", "1e+40"} {
		if v, err := String(lit, f32Type); err == nil {
			t.Errorf("out-of-range literal %q accepted as %v", lit, v.Elem().Interface())
		}
	}
}

// place in: parse/
package parse_test

import (
	"reflect"
	"testing"

	"github.com/vimeo/dials/parse"
	"github.com/vimeo/dials/sources/flag/flaghelper"
)

// Parsing what the string-slice / string-set flag helpers print must return
// exactly the original strings, including ones that begin or end with a backtick.
func TestDemoSeedBacktickStringsRoundTrip(t *testing.T) {
	for _, orig := range [][]string{
		{"`uname -a`", "plain"},
		{"a", "trailing`"},
		{"`"},
		{"mid`dle", "with space"}, // control: unaffected
	} {
		in := orig
		txt := flaghelper.NewStringSliceFlag(&in).String()
		got, err := parse.StringSlice(txt)
		if err != nil {
			t.Errorf("StringSlice(%s): unexpected error: %s", txt, err)
			continue
		}
		if !reflect.DeepEqual(got, orig) {
			t.Errorf("StringSlice(%s) = %q; want %q", txt, got, orig)
		}
	}

	set := map[string]struct{}{"`x`": {}, "y": {}}
	txt := flaghelper.NewStringSetFlag(&set).String()
	gotSet, err := parse.StringSet(txt)
	if err != nil {
		t.Fatalf("StringSet(%s): unexpected error: %s", txt, err)
	}
	if !reflect.DeepEqual(gotSet, set) {
		t.Errorf("StringSet(%s) = %v; want %v", txt, gotSet, set)
	}
}

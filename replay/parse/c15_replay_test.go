package parse

// Replay battery for the C15 obligations of parseNumber and the integral slice parsers: boundary
// literals of every integer width, in several bases, must parse to exactly their value or be rejected.

import (
	"fmt"
	"math/big"
	"reflect"
	"testing"
)

func rpLiterals(v *big.Int) []string {
	out := []string{v.String()}
	neg := v.Sign() < 0
	abs := new(big.Int).Abs(v)
	sign := ""
	if neg {
		sign = "-"
	}
	out = append(out, sign+"0x"+abs.Text(16), sign+"0b"+abs.Text(2), sign+"0o"+abs.Text(8))
	return out
}

func TestReplay_C15_ParseNumberBoundaries(t *testing.T) {
	types := []reflect.Type{reflect.TypeOf(int(0)), reflect.TypeOf(int8(0)), reflect.TypeOf(int16(0)), reflect.TypeOf(int32(0)), reflect.TypeOf(int64(0)),
		reflect.TypeOf(uint(0)), reflect.TypeOf(uint8(0)), reflect.TypeOf(uint16(0)), reflect.TypeOf(uint32(0)), reflect.TypeOf(uint64(0))}
	for _, typ := range types {
		bits := typ.Bits()
		signed := typ.Kind() >= reflect.Int && typ.Kind() <= reflect.Int64
		lo, hi := new(big.Int), new(big.Int)
		if signed {
			lo.Neg(new(big.Int).Lsh(big.NewInt(1), uint(bits-1)))
			hi.Sub(new(big.Int).Lsh(big.NewInt(1), uint(bits-1)), big.NewInt(1))
		} else {
			hi.Sub(new(big.Int).Lsh(big.NewInt(1), uint(bits)), big.NewInt(1))
		}
		cands := []*big.Int{lo, hi, new(big.Int).Sub(lo, big.NewInt(1)), new(big.Int).Add(hi, big.NewInt(1)), big.NewInt(0), big.NewInt(1), big.NewInt(-1),
			new(big.Int).Add(hi, hi), new(big.Int).Lsh(big.NewInt(1), 64), new(big.Int).Neg(new(big.Int).Lsh(big.NewInt(1), 63))}
		for _, c := range cands {
			for _, lit := range rpLiterals(c) {
				inRange := c.Cmp(lo) >= 0 && c.Cmp(hi) <= 0
				v, err := String(lit, typ)
				if inRange {
					if err != nil {
						t.Errorf("%s %q: unexpected error %v", typ, lit, err)
						continue
					}
					got := new(big.Int)
					if signed {
						got.SetInt64(v.Elem().Int())
					} else {
						got.SetUint64(v.Elem().Uint())
					}
					if got.Cmp(c) != 0 {
						t.Errorf("%s %q: parsed to %s", typ, lit, got)
					}
				} else if err == nil {
					t.Errorf("%s %q: out of range literal accepted as %v", typ, lit, v.Elem().Interface())
				}
			}
		}
	}
}

func rpCheckSigned[I int | int64 | int32 | int16 | int8](t *testing.T, bits uint) {
	lo := new(big.Int).Neg(new(big.Int).Lsh(big.NewInt(1), bits-1))
	hi := new(big.Int).Sub(new(big.Int).Lsh(big.NewInt(1), bits-1), big.NewInt(1))
	for _, c := range []*big.Int{lo, hi, new(big.Int).Sub(lo, big.NewInt(1)), new(big.Int).Add(hi, big.NewInt(1))} {
		for _, lit := range rpLiterals(c) {
			in := fmt.Sprintf(" 1 ,%s,\t-2", lit)
			out, err := SignedIntegralSlice[I](in)
			inRange := c.Cmp(lo) >= 0 && c.Cmp(hi) <= 0
			if inRange {
				if err != nil || len(out) != 3 || big.NewInt(int64(out[1])).Cmp(c) != 0 || out[0] != 1 || out[2] != -2 {
					t.Errorf("%d bits %q: got %v %v", bits, in, out, err)
				}
			} else if err == nil {
				t.Errorf("%d bits %q: out of range accepted: %v", bits, in, out)
			}
		}
	}
}

func rpCheckUnsigned[I uint | uint64 | uint32 | uint16 | uint8 | uintptr](t *testing.T, bits uint) {
	hi := new(big.Int).Sub(new(big.Int).Lsh(big.NewInt(1), bits), big.NewInt(1))
	for _, c := range []*big.Int{big.NewInt(0), hi, new(big.Int).Add(hi, big.NewInt(1)), big.NewInt(-1)} {
		for _, lit := range rpLiterals(c) {
			in := fmt.Sprintf("1, %s ,2", lit)
			out, err := UnsignedIntegralSlice[I](in)
			inRange := c.Sign() >= 0 && c.Cmp(hi) <= 0
			if inRange {
				if err != nil || len(out) != 3 || new(big.Int).SetUint64(uint64(out[1])).Cmp(c) != 0 {
					t.Errorf("%d bits %q: got %v %v", bits, in, out, err)
				}
			} else if err == nil {
				t.Errorf("%d bits %q: out of range accepted: %v", bits, in, out)
			}
		}
	}
}

func TestReplay_C15_IntegralSlices(t *testing.T) {
	rpCheckSigned[int8](t, 8)
	rpCheckSigned[int16](t, 16)
	rpCheckSigned[int32](t, 32)
	rpCheckSigned[int64](t, 64)
	rpCheckSigned[int](t, 64)
	rpCheckUnsigned[uint8](t, 8)
	rpCheckUnsigned[uint16](t, 16)
	rpCheckUnsigned[uint32](t, 32)
	rpCheckUnsigned[uint64](t, 64)
	rpCheckUnsigned[uint](t, 64)
	rpCheckUnsigned[uintptr](t, 64)
}

// place in: parse/
package parse

import (
	"math"
	"reflect"
	"strconv"
	"testing"
)

type seedC151IntCase_r6c15_5 struct {
	typ reflect.Type
	min int64
	max int64
}

func seedC151Cases_r6c15_5() []seedC151IntCase_r6c15_5 {
	return []seedC151IntCase_r6c15_5{
		{reflect.TypeOf(int8(0)), math.MinInt8, math.MaxInt8},
		{reflect.TypeOf(int16(0)), math.MinInt16, math.MaxInt16},
		{reflect.TypeOf(int32(0)), math.MinInt32, math.MaxInt32},
		{reflect.TypeOf(int64(0)), math.MinInt64, math.MaxInt64},
		{reflect.TypeOf(int(0)), math.MinInt, math.MaxInt},
	}
}

// Every value of a signed integer type, including the minimum of each width,
// must survive formatting (strconv.FormatInt) followed by parse.String.
func TestDemoSeedC151SignedExtremesRoundTrip_r6c15_5(t *testing.T) {
	for _, c := range seedC151Cases_r6c15_5() {
		for _, v := range []int64{c.min, c.min + 1, -1, 0, 1, c.max - 1, c.max} {
			txt := strconv.FormatInt(v, 10)
			got, err := String(txt, c.typ)
			if err != nil {
				t.Errorf("%v: parsing in-range literal %q failed: %v", c.typ, txt, err)
				continue
			}
			if got.Elem().Int() != v {
				t.Errorf("%v: parsing %q gave %d, want %d", c.typ, txt, got.Elem().Int(), v)
			}
		}
	}
}

// Literals just outside the range are still rejected (sanity: holds on both trees
// except for int64, whose neighbours do not fit in the 64-bit parse at all).
func TestDemoSeedC151SignedJustOutsideRejected_r6c15_5(t *testing.T) {
	for _, c := range seedC151Cases_r6c15_5() {
		if c.typ.Bits() == 64 {
			continue
		}
		for _, v := range []int64{c.min - 1, c.max + 1} {
			txt := strconv.FormatInt(v, 10)
			if got, err := String(txt, c.typ); err == nil {
				t.Errorf("%v: out-of-range literal %q accepted as %v", c.typ, txt, got.Elem().Interface())
			}
		}
	}
}

// The same minimum values as elements of a slice and as map values.
func TestDemoSeedC151MinInCollections_r6c15_5(t *testing.T) {
	got, err := String("-128,127,-32768", reflect.TypeOf([]int16{}))
	if err != nil {
		t.Fatalf("[]int16 parse failed: %v", err)
	}
	if want := []int16{-128, 127, -32768}; !reflect.DeepEqual(got.Interface(), want) {
		t.Errorf("[]int16: got %v want %v", got.Interface(), want)
	}
	gotM, err := String(`"lo":-128,"hi":127`, reflect.TypeOf(map[string]int8{}))
	if err != nil {
		t.Fatalf("map[string]int8 parse failed: %v", err)
	}
	if want := (map[string]int8{"lo": -128, "hi": 127}); !reflect.DeepEqual(gotM.Interface(), want) {
		t.Errorf("map[string]int8: got %v want %v", gotM.Interface(), want)
	}
}

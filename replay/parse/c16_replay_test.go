package parse

// Replay tests for obligations of parse.String / parse.Map (C16, C11).  Injected with `go test -overlay`.

import (
	"reflect"
	"testing"
)

type rpStr string
type rpInt int

// slices and maps whose element, key or value type is a user-defined type of a supported kind
func TestReplay_C16_UserDefinedElementTypes(t *testing.T) {
	for _, tc := range []struct {
		s    string
		t    reflect.Type
		want any
	}{
		{`"a","b"`, reflect.TypeOf([]rpStr{}), []rpStr{"a", "b"}},
		{`1,2`, reflect.TypeOf([]rpInt{}), []rpInt{1, 2}},
		{`"a":1`, reflect.TypeOf(map[rpStr]rpInt{}), map[rpStr]rpInt{"a": 1}},
		{`"a":"b"`, reflect.TypeOf(map[string]rpStr{}), map[string]rpStr{"a": "b"}},
	} {
		func() {
			defer func() {
				if r := recover(); r != nil {
					t.Errorf("%v %q: panic: %v", tc.t, tc.s, r)
				}
			}()
			v, err := String(tc.s, tc.t)
			if err != nil {
				t.Errorf("%v %q: %v", tc.t, tc.s, err)
				return
			}
			if !reflect.DeepEqual(v.Interface(), tc.want) {
				t.Errorf("%v %q: got %#v want %#v", tc.t, tc.s, v.Interface(), tc.want)
			}
		}()
	}
}

// place in: parse/
package parse

import (
	"reflect"
	"testing"
	"time"
)

// Every call of the map parsers must return (a value or an error) in bounded
// time, for every input string. A key followed by a colon and no value at the
// end of the input (e.g. "a:" or "a:1,b:") must not make the parser spin.
func TestDemoSeedC16_1_DanglingKeyColonTerminates(t *testing.T) {
	type mapOfStrings map[string]string
	inputs := []string{`a:`, `a:1,b:`, `"k": `, "x:y, z :"}
	for _, in := range inputs {
		in := in
		for name, fn := range map[string]func() error{
			"Map": func() error {
				_, err := Map(in, reflect.TypeOf(map[string]string{}))
				return err
			},
			"StringStringSliceMap": func() error {
				_, err := StringStringSliceMap(in)
				return err
			},
			"String(named map)": func() error {
				_, err := String(in, reflect.TypeOf(mapOfStrings{}))
				return err
			},
		} {
			done := make(chan error, 1)
			go func() { done <- fn() }()
			select {
			case err := <-done:
				t.Logf("%s(%q) returned (err=%v)", name, in, err)
			case <-time.After(2 * time.Second):
				t.Fatalf("%s(%q) did not return within 2s (non-termination)", name, in)
			}
		}
	}
}

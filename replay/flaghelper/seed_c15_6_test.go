// place in: sources/flag/flaghelper/
package flaghelper

import (
	"reflect"
	"testing"

	"github.com/vimeo/dials/parse"
)

type seedC152Name_r6c15_6 string

// A plain string parses to exactly itself, whitespace included.
func TestDemoSeedC152ScalarStringIdentity_r6c15_6(t *testing.T) {
	for _, s := range []string{"", "a", " a", "a ", "\ta\n", " ", "\n", "a b", "\u00a0x\u00a0", "\u2003"} {
		got, err := parse.String(s, reflect.TypeOf(""))
		if err != nil {
			t.Errorf("%q: unexpected error %v", s, err)
			continue
		}
		if g := got.Elem().String(); g != s {
			t.Errorf("parse.String(%q) = %q, want the input unchanged", s, g)
		}
	}
}

// map[string]string: what MapStringStringFlag.String() prints parses back to the same map.
func TestDemoSeedC152StringMapRoundTrip_r6c15_6(t *testing.T) {
	orig := map[string]string{"plain": "v", " lead": " padded ", "nl": "line\n", "tab\t": "\t", "empty": ""}
	txt := NewMapStringStringFlag(&orig).String()

	back := map[string]string{}
	fl := NewMapStringStringFlag(&back)
	if err := fl.Set(txt); err != nil {
		t.Fatalf("Set(%s) failed: %v", txt, err)
	}
	if got := fl.Get().(map[string]string); !reflect.DeepEqual(got, orig) {
		t.Errorf("round trip of %s\n got  %q\n want %q", txt, got, orig)
	}
}

// A slice of a named string type: quoted elements keep their whitespace.
func TestDemoSeedC152NamedStringSliceRoundTrip_r6c15_6(t *testing.T) {
	orig := []string{" a", "b ", "\n", "c"}
	txt := NewStringSliceFlag(&orig).String()

	got, err := parse.String(txt, reflect.TypeOf([]seedC152Name_r6c15_6{}))
	if err != nil {
		t.Fatalf("parse of %s failed: %v", txt, err)
	}
	want := []seedC152Name_r6c15_6{" a", "b ", "\n", "c"}
	if !reflect.DeepEqual(got.Interface(), want) {
		t.Errorf("round trip of %s\n got  %q\n want %q", txt, got.Interface(), want)
	}
}

// place in: sources/flag/flaghelper/
package flaghelper

import (
	"math"
	"reflect"
	"testing"

	"github.com/vimeo/dials/parse"
)

// Parsing what the unsigned-slice flag helper prints must give back exactly
// the original values, including the top half of the 64-bit unsigned range.
func TestDemoSeedUint64SliceRoundTripExtremes(t *testing.T) {
	for _, orig := range [][]uint64{
		{0, 1, math.MaxInt64}, // control: unaffected
		{math.MaxUint64},
		{1 << 63, 7},
		{3, math.MaxUint64 - 1, math.MaxInt64 + 2},
	} {
		in := append([]uint64(nil), orig...)
		txt := NewUnsignedIntegralSlice(&in).String()
		got, err := parse.UnsignedIntegralSlice[uint64](txt)
		if err != nil {
			t.Errorf("%v printed as %q, which fails to parse: %s", orig, txt, err)
			continue
		}
		if !reflect.DeepEqual(got, orig) {
			t.Errorf("%v printed as %q, which parsed as %v", orig, txt, got)
		}
	}

	// and through the flag's own Set
	orig := []uint{math.MaxUint}
	txt := NewUnsignedIntegralSlice(&orig).String()
	var dst []uint
	if err := NewUnsignedIntegralSlice(&dst).Set(txt); err != nil {
		t.Errorf("[]uint{MaxUint} printed as %q; Set failed: %s", txt, err)
	} else if !reflect.DeepEqual(dst, orig) {
		t.Errorf("[]uint{MaxUint} printed as %q; Set produced %v", txt, dst)
	}
}

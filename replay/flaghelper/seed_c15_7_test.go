// place in: sources/flag/flaghelper/
package flaghelper

import (
	"reflect"
	"testing"

	"github.com/vimeo/dials/parse"
)

func seedC153RoundTrip_r6c15_7(t *testing.T, orig map[string][]string) {
	t.Helper()
	txt := NewMapStringStringSliceFlag(&orig).String()

	// directly through the parser
	parsed, err := parse.StringStringSliceMap(txt)
	if err != nil {
		t.Fatalf("parse.StringStringSliceMap(%s) failed: %v", txt, err)
	}
	if !reflect.DeepEqual(parsed, orig) {
		t.Errorf("parse of canonical text %s\n got  %q\n want %q", txt, parsed, orig)
	}

	// and through a fresh flag value
	back := map[string][]string{}
	fl := NewMapStringStringSliceFlag(&back)
	if err := fl.Set(txt); err != nil {
		t.Fatalf("Set(%s) failed: %v", txt, err)
	}
	if got := fl.Get().(map[string][]string); !reflect.DeepEqual(got, orig) {
		t.Errorf("flag round trip of %s\n got  %q\n want %q", txt, got, orig)
	}
}

// Values of one key are a slice: their order is part of the value and must survive
// String() followed by parsing.
func TestDemoSeedC153ValueOrderWithinKey_r6c15_7(t *testing.T) {
	seedC153RoundTrip_r6c15_7(t, map[string][]string{"k": {"b", "a"}})
}

func TestDemoSeedC153SeveralKeysUnsortedValues_r6c15_7(t *testing.T) {
	seedC153RoundTrip_r6c15_7(t, map[string][]string{
		"path":  {"/usr/local/bin", "/usr/bin", "/bin"},
		"hosts": {"zeta:1", "alpha,2", "mid \"q\""},
		"one":   {"x"},
		"dup":   {"b", "a", "b"},
	})
}

// Already sorted values round-trip on both trees (the change needs unsorted values to show).
func TestDemoSeedC153SortedValuesSanity_r6c15_7(t *testing.T) {
	seedC153RoundTrip_r6c15_7(t, map[string][]string{"k": {"a", "b"}, "j": {"1", "2", "3"}})
}

// place in: tagformat/caseconversion/
package caseconversion

import (
	"reflect"
	"strings"
	"testing"
)

// demoSeedC191Case is a Go identifier assembled from capitalised words and
// initialisms, with the words it is made of.
type demoSeedC191Case_r5c19_4 struct {
	ident string
	words []string
}

func demoSeedC191Cases_r5c19_4() []demoSeedC191Case_r5c19_4 {
	return []demoSeedC191Case_r5c19_4{
		{"VMIDName", []string{"vm", "id", "name"}},
		{"UserIPID", []string{"user", "ip", "id"}},
		{"UIIDFile", []string{"ui", "id", "file"}},
		{"IDIP", []string{"id", "ip"}},
		// controls (longer pairs)
		{"JSONAPIName", []string{"json", "api", "name"}},
		{"UserID", []string{"user", "id"}},
	}
}

func TestDemoSeedC191ShortInitialismPairs_r5c19_4(t *testing.T) {
	for _, c := range demoSeedC191Cases_r5c19_4() {
		got, err := DecodeGoCamelCase(c.ident)
		if err != nil {
			t.Errorf("%s: unexpected error: %s", c.ident, err)
			continue
		}
		if !reflect.DeepEqual([]string(got), c.words) {
			t.Errorf("DecodeGoCamelCase(%q) = %q; want %q (derived env name %q, want %q)",
				c.ident, []string(got), c.words,
				EncodeUpperSnakeCase(got), strings.ToUpper(strings.Join(c.words, "_")))
		}
	}
}

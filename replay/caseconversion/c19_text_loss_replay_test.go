package caseconversion

// Replay test for decodeGoCamelCase's "no text is skipped without being emitted" clause (C19, C11, C12).

import (
	"strings"
	"testing"
)

// an identifier whose trailing upper-case run is preceded by a digit: every character must end up in a word
func TestReplay_C19_NoTextIsLostBeforeATrailingUpperCaseRun(t *testing.T) {
	for _, id := range []string{"Foo1X", "Base64URL", "Sha256ID", "Utf8A"} {
		words, err := DecodeGoCamelCase(id)
		if err != nil {
			t.Errorf("%s: %v", id, err)
			continue
		}
		if got := strings.Join(words, ""); got != strings.ToLower(id) {
			t.Errorf("%s decodes to %v: the words spell %q, want %q", id, words, got, strings.ToLower(id))
		}
	}
}

// place in: tagformat/caseconversion/
package caseconversion

import (
	"reflect"
	"testing"
)

// demoSeedC193Scheme pairs an encoder with its matching decoder.
type demoSeedC193Scheme_r5c19_6 struct {
	name string
	enc  EncodeCasingFunc
	dec  DecodeCasingFunc
}

func demoSeedC193Schemes_r5c19_6() []demoSeedC193Scheme_r5c19_6 {
	return []demoSeedC193Scheme_r5c19_6{
		{"UpperCamelCase", EncodeUpperCamelCase, DecodeUpperCamelCase},
		{"lowerCamelCase", EncodeLowerCamelCase, DecodeLowerCamelCase},
		{"lower_snake_case", EncodeLowerSnakeCase, DecodeLowerSnakeCase},
		{"UPPER_SNAKE_CASE", EncodeUpperSnakeCase, DecodeUpperSnakeCase},
		{"kebab-case", EncodeKebabCase, DecodeKebabCase},
		{"Case_Preserving_Snake_Case", EncodeCasePreservingSnakeCase, DecodeCasePreservingSnakeCase},
	}
}

func demoSeedC193WordLists_r5c19_6() [][]string {
	return [][]string{
		// words over [a-z][a-z0-9]* with a letter after a digit
		{"k8s", "cluster"},
		{"sha256sum"},
		{"use", "oauth2client", "id"},
		{"s3bucket", "name"},
		// controls: digits only at the end of a word
		{"upper12", "camel", "case"},
		{"a1", "b2", "c"},
		{"plain", "words"},
	}
}

func TestDemoSeedC193RoundTripDigitThenLetter_r5c19_6(t *testing.T) {
	for _, sch := range demoSeedC193Schemes_r5c19_6() {
		for _, words := range demoSeedC193WordLists_r5c19_6() {
			encoded := sch.enc(DecodedIdentifier(words))
			got, err := sch.dec(encoded)
			if err != nil {
				t.Errorf("%s: decoding %q (from %q): unexpected error: %s", sch.name, encoded, words, err)
				continue
			}
			if !reflect.DeepEqual([]string(got), words) {
				t.Errorf("%s: decode(encode(%q)) = decode(%q) = %q; want %q",
					sch.name, words, encoded, []string(got), words)
			}
		}
	}
}

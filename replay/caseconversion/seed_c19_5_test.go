// place in: tagformat/caseconversion/
package caseconversion

import (
	"reflect"
	"strings"
	"testing"
)

// demoSeedC192Case is a Go identifier assembled from capitalised words and
// initialisms, with the words it is made of.
type demoSeedC192Case_r5c19_5 struct {
	ident string
	words []string
}

func demoSeedC192Cases_r5c19_5() []demoSeedC192Case_r5c19_5 {
	return []demoSeedC192Case_r5c19_5{
		// UTF8 is the one initialism in the list that ends in a digit
		{"UTF8File", []string{"utf8", "file"}},
		{"UserUTF8Name", []string{"user", "utf8", "name"}},
		{"JSONUTF8Port", []string{"json", "utf8", "port"}},
		// controls
		{"UTF8ID", []string{"utf8", "id"}},
		{"JSONFile", []string{"json", "file"}},
		{"HTTPPort", []string{"http", "port"}},
	}
}

func TestDemoSeedC192WordAfterDigitInitialism_r5c19_5(t *testing.T) {
	for _, c := range demoSeedC192Cases_r5c19_5() {
		got, err := DecodeGoCamelCase(c.ident)
		if err != nil {
			t.Errorf("%s: unexpected error: %s", c.ident, err)
			continue
		}
		if !reflect.DeepEqual([]string(got), c.words) {
			t.Errorf("DecodeGoCamelCase(%q) = %q; want %q (derived flag name %q, want %q)",
				c.ident, []string(got), c.words,
				EncodeKebabCase(got), strings.Join(c.words, "-"))
		}
	}
}

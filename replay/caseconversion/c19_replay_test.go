package caseconversion

// Replay battery for C19: every initialism of the table, alone, followed by a capitalised word and
// preceded by one, must decode to exactly those words; encoders/decoders of each scheme round-trip on
// sample word lists.

import (
	"reflect"
	"strings"
	"testing"
)

func TestReplay_C19_InitialismsKeepTheirBoundaries(t *testing.T) {
	for _, ini := range commonInitialisms {
		low := strings.ToLower(ini)
		for _, tc := range []struct {
			in   string
			want []string
		}{
			{ini, []string{low}},
			{ini + "Port", []string{low, "port"}},
			{"User" + ini, []string{"user", low}},
			{"my" + ini + "Value", []string{"my", low, "value"}},
		} {
			got, err := DecodeGoCamelCase(tc.in)
			if err != nil {
				t.Errorf("DecodeGoCamelCase(%q): unexpected error %v", tc.in, err)
				continue
			}
			if !reflect.DeepEqual([]string(got), tc.want) {
				t.Errorf("DecodeGoCamelCase(%q) = %q, want %q", tc.in, []string(got), tc.want)
			}
		}
	}
}

func TestReplay_C19_RoundTrips(t *testing.T) {
	lists := [][]string{{"a"}, {"ab", "c"}, {"word", "w2", "x9y"}, {"json", "api", "docs"}, {"a", "b", "c", "d"}}
	type scheme struct {
		name string
		enc  EncodeCasingFunc
		dec  DecodeCasingFunc
	}
	for _, sc := range []scheme{
		{"UpperCamel", EncodeUpperCamelCase, DecodeUpperCamelCase},
		{"lowerCamel", EncodeLowerCamelCase, DecodeLowerCamelCase},
		{"lower_snake", EncodeLowerSnakeCase, DecodeLowerSnakeCase},
		{"UPPER_SNAKE", EncodeUpperSnakeCase, DecodeUpperSnakeCase},
		{"kebab", EncodeKebabCase, DecodeKebabCase},
		{"case_Preserving", EncodeCasePreservingSnakeCase, DecodeCasePreservingSnakeCase},
	} {
		for _, l := range lists {
			enc := sc.enc(l)
			got, err := sc.dec(enc)
			if err != nil || !reflect.DeepEqual([]string(got), l) {
				t.Errorf("%s: Decode(Encode(%q)=%q) = %q, %v", sc.name, l, enc, []string(got), err)
			}
		}
	}
}

func TestReplay_C19_NoPanicOnOddStrings(t *testing.T) {
	odd := []string{"", "_", "-", "\xff", "a\xff", "\xffA", "Ä", "aÄb", "AÄ", "é_é", "→", "a→B", "ABC", "aBC", "AbC_", "_A", "A_", "a__b", "1a", "a1", "日本語", "aB日", "XMLé"}
	decs := []DecodeCasingFunc{DecodeUpperCamelCase, DecodeLowerCamelCase, DecodeLowerSnakeCase, DecodeUpperSnakeCase, DecodeKebabCase, DecodeCasePreservingSnakeCase, DecodeGoCamelCase, DecodeGoTags}
	for _, s := range odd {
		for _, d := range decs {
			d(s)
		}
	}
}

// place in: sources/pflag/
package pflag

import (
	"context"
	"testing"
	"time"

	"github.com/vimeo/dials"
	"github.com/vimeo/dials/tagformat/caseconversion"
)

type seedC121Inner_r7c12_4 struct {
	MaxConns int
	Timeout  time.Duration `dialspflag:"db.timeout"`
}

type seedC121Config_r7c12_4 struct {
	ListenAddr string
	Database   seedC121Inner_r7c12_4
}

// With a custom NameConfig whose TagEncodeCasing is lower_snake_case the
// flags must be named by the snake-case join of the words along the path
// (and by the dialspflag tag verbatim where present).
func TestDemoSeedC12CustomTagCasingNamesPFlags_r7c12_4(t *testing.T) {
	ctx, cancel := context.WithTimeout(context.Background(), 10*time.Second)
	defer cancel()

	nameCfg := &NameConfig{
		FieldNameEncodeCasing: caseconversion.EncodeUpperCamelCase,
		TagEncodeCasing:       caseconversion.EncodeLowerSnakeCase,
	}
	tmpl := seedC121Config_r7c12_4{ListenAddr: ":80", Database: seedC121Inner_r7c12_4{MaxConns: 3, Timeout: time.Second}}
	args := []string{"--listen_addr=:8080", "--database_max_conns=17", "--db.timeout=4s"}

	s, setupErr := NewSetWithArgs(nameCfg, &tmpl, args)
	if setupErr != nil {
		t.Fatalf("failed to set up Set: %s", setupErr)
	}

	for _, name := range []string{"listen_addr", "database_max_conns", "db.timeout"} {
		if s.Flags.Lookup(name) == nil {
			t.Errorf("flag %q is not registered", name)
		}
	}
	for _, name := range []string{"listen-addr", "database-max-conns"} {
		if s.Flags.Lookup(name) != nil {
			t.Errorf("flag %q is registered although the name config asks for snake_case", name)
		}
	}

	d, cfgErr := dials.Config(ctx, &tmpl, s)
	if cfgErr != nil {
		t.Fatalf("stacking failed: %s", cfgErr)
	}
	got := d.View()
	exp := seedC121Config_r7c12_4{ListenAddr: ":8080", Database: seedC121Inner_r7c12_4{MaxConns: 17, Timeout: 4 * time.Second}}
	if *got != exp {
		t.Errorf("unexpected config: got %+v; want %+v", *got, exp)
	}
}

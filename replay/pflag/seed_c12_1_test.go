// place in: sources/pflag/
package pflag

import (
	"context"
	"testing"

	"github.com/vimeo/dials"
)

// A value outside the range of an int32 leaf must be rejected by the pflag
// source, exactly as it is for the int8/int16 leaves.
func TestDemoSeedPFlagInt32OutOfRange(t *testing.T) {
	type cfg struct {
		A int32
	}
	tmpl := cfg{A: 10}
	s, setupErr := NewSetWithArgs(DefaultFlagNameConfig(), &tmpl, []string{"--a=4294967297"})
	if setupErr != nil {
		t.Fatalf("failed to set up Set: %s", setupErr)
	}
	d, err := dials.Config(context.Background(), &tmpl, s)
	if err == nil {
		t.Fatalf("expected an out-of-range error for --a=4294967297 on an int32 leaf; got none and A=%d", d.View().A)
	}
	t.Logf("got expected error: %s", err)
}

// In-range values keep working on both trees.
func TestDemoSeedPFlagInt32InRange(t *testing.T) {
	type cfg struct {
		A int32
	}
	tmpl := cfg{A: 10}
	s, setupErr := NewSetWithArgs(DefaultFlagNameConfig(), &tmpl, []string{"--a=-2147483648"})
	if setupErr != nil {
		t.Fatalf("failed to set up Set: %s", setupErr)
	}
	d, err := dials.Config(context.Background(), &tmpl, s)
	if err != nil {
		t.Fatalf("unexpected error: %s", err)
	}
	if d.View().A != -2147483648 {
		t.Errorf("unexpected value %d", d.View().A)
	}
}

// Drop this file into sources/env/ (package env) as zz_demo_test.go and run:
//
//	go test -vet=off -count=1 -run TestZZDemoNestedAlias ./sources/env/
//
// Property C14: for every aliased field, at any nesting depth, either name
// sets the field and both together are an error naming the field.
package env

import (
	"context"
	"strings"
	"testing"

	"github.com/vimeo/dials"
)

type zzDemoDB struct {
	Host string `dials:"host" dialsalias:"hostname"`
	Port int    `dials:"port"`
}

type zzDemoAliasCfg struct {
	// top-level aliased field (control: keeps working with the change)
	Name string `dials:"name" dialsalias:"oldname"`
	// aliased field one level down
	DB zzDemoDB `dials:"db"`
}

func TestZZDemoNestedAlias(t *testing.T) {
	ctx := context.Background()

	// 1. only the alias names are supplied.
	t.Run("alias_only", func(t *testing.T) {
		t.Setenv("OLDNAME", "top")
		t.Setenv("DB_HOSTNAME", "db.example.com")
		t.Setenv("DB_PORT", "5432")

		cfg := zzDemoAliasCfg{}
		d, err := dials.Config(ctx, &cfg, &Source{})
		if err != nil {
			t.Fatalf("unexpected error: %s", err)
		}
		got := d.View()
		if got.Name != "top" {
			t.Errorf("top-level field not set through its alias: %q", got.Name)
		}
		if got.DB.Port != 5432 {
			t.Errorf("nested unaliased field not set: %d", got.DB.Port)
		}
		if got.DB.Host != "db.example.com" {
			t.Errorf("nested field DB.Host not set through its alias DB_HOSTNAME: got %q", got.DB.Host)
		}
	})

	// 2. only the primary name is supplied.
	t.Run("primary_only", func(t *testing.T) {
		t.Setenv("DB_HOST", "primary.example.com")

		cfg := zzDemoAliasCfg{}
		d, err := dials.Config(ctx, &cfg, &Source{})
		if err != nil {
			t.Fatalf("unexpected error: %s", err)
		}
		if got := d.View().DB.Host; got != "primary.example.com" {
			t.Errorf("nested field DB.Host not set through its primary name: got %q", got)
		}
	})

	// 3. both names are supplied for the nested field: must be an error
	// naming the field.
	t.Run("both", func(t *testing.T) {
		t.Setenv("DB_HOST", "primary.example.com")
		t.Setenv("DB_HOSTNAME", "alias.example.com")

		cfg := zzDemoAliasCfg{}
		d, err := dials.Config(ctx, &cfg, &Source{})
		if err == nil {
			t.Fatalf("no error although both DB_HOST and DB_HOSTNAME are set; DB.Host = %q", d.View().DB.Host)
		}
		if !strings.Contains(err.Error(), "Host") {
			t.Errorf("error does not name the field: %s", err)
		}
	})
}

// place in: sources/env/
package env

import (
	"context"
	"reflect"
	"testing"

	"github.com/vimeo/dials"
	"github.com/vimeo/dials/parse"
)

// demoSeedC162Host is a user-defined named string type used as the element
// type of a slice leaf.
type demoSeedC162Host_r5c16_5 string

// demoSeedC162Tags is a user-defined named slice type.
type demoSeedC162Tags_r5c16_5 []string

type demoSeedC162Config_r5c16_5 struct {
	Hosts []demoSeedC162Host_r5c16_5
	Tags  demoSeedC162Tags_r5c16_5
}

func demoSeedC162Load_r5c16_5(t *testing.T) (cfg *demoSeedC162Config_r5c16_5, err error, panicked interface{}) {
	defer func() {
		if r := recover(); r != nil {
			panicked = r
		}
	}()
	c := demoSeedC162Config_r5c16_5{}
	d, cfgErr := dials.Config(context.Background(), &c, &Source{Prefix: "DEMOSEEDC162"})
	if cfgErr != nil {
		return nil, cfgErr, nil
	}
	return d.View(), nil, nil
}

// A slice whose element type is a user-defined string type, filled from an
// environment variable, must yield a value of the requested type or an error,
// never a panic.
func TestDemoSeedC16_2_EnvSliceOfNamedStrings_r5c16_5(t *testing.T) {
	t.Setenv("DEMOSEEDC162_HOSTS", "alpha,beta")
	t.Setenv("DEMOSEEDC162_TAGS", "x,y")
	cfg, err, panicked := demoSeedC162Load_r5c16_5(t)
	if panicked != nil {
		t.Fatalf("env source panicked: %v", panicked)
	}
	if err != nil {
		t.Logf("error (acceptable for the property): %v", err)
		return
	}
	if !reflect.DeepEqual(cfg.Hosts, []demoSeedC162Host_r5c16_5{"alpha", "beta"}) {
		t.Errorf("unexpected Hosts: %#v", cfg.Hosts)
	}
	if !reflect.DeepEqual(cfg.Tags, demoSeedC162Tags_r5c16_5{"x", "y"}) {
		t.Errorf("unexpected Tags: %#v", cfg.Tags)
	}
}

// Same obligation directly on the parser.
func TestDemoSeedC16_2_ParseStringSliceOfNamedStrings_r5c16_5(t *testing.T) {
	for _, in := range []string{"", "a", "a,b", `"a b",c`} {
		func() {
			defer func() {
				if r := recover(); r != nil {
					t.Errorf("parse.String(%q, []demoSeedC162Host) panicked: %v", in, r)
				}
			}()
			want := reflect.TypeOf([]demoSeedC162Host_r5c16_5{})
			v, err := parse.String(in, want)
			if err == nil && v.Type() != want {
				t.Errorf("parse.String(%q): got type %s, want %s", in, v.Type(), want)
			}
		}()
	}
}

package env

// Replay tests for obligations of the environment source and of the manglers below it (C11, C10, C16).
// Injected into /repo/sources/env with `go test -overlay`; never written to /repo.

import (
	"context"
	"os"
	"testing"

	"github.com/vimeo/dials"
)

type replayLevel uint8
type replayInner struct {
	Alpha int
	Lvl   replayLevel
}

// populateStruct's leaf Set: a top-level leaf of a user-defined named scalar type.
func TestReplay_C11_NamedScalarLeaf(t *testing.T) {
	type C struct {
		Lvl replayLevel
	}
	os.Setenv("LVL", "3")
	defer os.Unsetenv("LVL")
	d, err := dials.Config(context.Background(), &C{}, &Source{})
	if err != nil {
		t.Fatalf("named scalar leaf: %v", err)
	}
	if d.View().Lvl != 3 {
		t.Errorf("got %+v, want Lvl=3", d.View())
	}
}

// the same leaf type one level down (populateStruct's loop)
func TestReplay_C11_NamedScalarLeafNested(t *testing.T) {
	type C struct {
		Nest replayInner
	}
	os.Setenv("NEST_LVL", "4")
	os.Setenv("NEST_ALPHA", "7")
	defer os.Unsetenv("NEST_LVL")
	defer os.Unsetenv("NEST_ALPHA")
	d, err := dials.Config(context.Background(), &C{}, &Source{})
	if err != nil {
		t.Fatalf("nested named scalar leaf: %v", err)
	}
	if d.View().Nest.Lvl != 4 || d.View().Nest.Alpha != 7 {
		t.Errorf("got %+v, want Nest.Lvl=4 Nest.Alpha=7", d.View())
	}
}

// leaves set before an unset nested struct must survive; leaves after it must not shift
func TestReplay_C11_LeavesAroundUnsetNestedStruct(t *testing.T) {
	type TLS struct{ Key, Cert string }
	type Server struct {
		Host string
		TLS  *TLS
		Port int
	}
	type C struct{ Server Server }
	os.Setenv("SERVER_HOST", "h")
	os.Setenv("SERVER_PORT", "8080")
	defer os.Unsetenv("SERVER_HOST")
	defer os.Unsetenv("SERVER_PORT")
	d, err := dials.Config(context.Background(), &C{}, &Source{})
	if err != nil {
		t.Fatal(err)
	}
	got := d.View()
	if got.Server.Host != "h" || got.Server.Port != 8080 || got.Server.TLS != nil {
		t.Errorf("got %+v (TLS %v), want Host=h Port=8080 TLS=nil", got.Server, got.Server.TLS)
	}
}

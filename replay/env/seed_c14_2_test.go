// place in: sources/env/
package env

import (
	"context"
	"strings"
	"testing"

	"github.com/vimeo/dials"
)

// A field may carry an alias tag without carrying the corresponding primary
// tag (the primary name is then derived from the field name). The alias name
// must still set the field, and primary+alias together must still be an error.
type demoSeedC14x1Inner struct {
	MaxConns int `dialsenvalias:"LEGACY_MAX_CONNS"`
}

type demoSeedC14x1Cfg struct {
	ListenAddr string `dialsalias:"bind_addr"`
	Inner      demoSeedC14x1Inner
}

func TestDemoSeedC14AliasWithoutPrimaryTag(t *testing.T) {
	ctx := context.Background()

	t.Run("primary_only", func(t *testing.T) {
		t.Setenv("LISTEN_ADDR", "a:1")
		t.Setenv("INNER_MAX_CONNS", "7")
		d, err := dials.Config(ctx, &demoSeedC14x1Cfg{}, &Source{})
		if err != nil {
			t.Fatalf("unexpected error: %s", err)
		}
		got := d.View()
		if got.ListenAddr != "a:1" || got.Inner.MaxConns != 7 {
			t.Errorf("primary names did not set the fields: %+v", *got)
		}
	})

	t.Run("alias_only_dials_tag", func(t *testing.T) {
		t.Setenv("BIND_ADDR", "b:2")
		d, err := dials.Config(ctx, &demoSeedC14x1Cfg{}, &Source{})
		if err != nil {
			t.Fatalf("unexpected error: %s", err)
		}
		if got := d.View().ListenAddr; got != "b:2" {
			t.Errorf("alias BIND_ADDR did not set ListenAddr: got %q, want %q", got, "b:2")
		}
	})

	t.Run("alias_only_env_tag_nested", func(t *testing.T) {
		t.Setenv("LEGACY_MAX_CONNS", "9")
		d, err := dials.Config(ctx, &demoSeedC14x1Cfg{}, &Source{})
		if err != nil {
			t.Fatalf("unexpected error: %s", err)
		}
		if got := d.View().Inner.MaxConns; got != 9 {
			t.Errorf("alias LEGACY_MAX_CONNS did not set Inner.MaxConns: got %d, want 9", got)
		}
	})

	t.Run("both", func(t *testing.T) {
		t.Setenv("LISTEN_ADDR", "a:1")
		t.Setenv("BIND_ADDR", "b:2")
		_, err := dials.Config(ctx, &demoSeedC14x1Cfg{}, &Source{})
		if err == nil {
			t.Fatalf("expected an error when both LISTEN_ADDR and BIND_ADDR are set")
		}
		if !strings.Contains(err.Error(), "ListenAddr") {
			t.Errorf("error does not name the field: %s", err)
		}
	})

	t.Run("neither", func(t *testing.T) {
		d, err := dials.Config(ctx, &demoSeedC14x1Cfg{ListenAddr: "default"}, &Source{})
		if err != nil {
			t.Fatalf("unexpected error: %s", err)
		}
		if got := d.View(); got.ListenAddr != "default" || got.Inner.MaxConns != 0 {
			t.Errorf("fields changed although nothing was supplied: %+v", *got)
		}
	})
}

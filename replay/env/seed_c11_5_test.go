// place in: sources/env/
package env

import (
	"context"
	"os"
	"testing"

	"github.com/vimeo/dials"
)

// An explicit dialsenv tag names the variable exactly as written.
func TestDemoSeedExplicitDialsenvTagIsUsedVerbatim(t *testing.T) {
	type cfgT struct {
		Token string `dialsenv:"my_app_token"`
		Other string
	}

	t.Run("documented_name_sets_the_leaf", func(t *testing.T) {
		os.Setenv("my_app_token", "s3cr3t")
		defer os.Unsetenv("my_app_token")

		cfg := cfgT{}
		d, err := dials.Config(context.Background(), &cfg, &Source{})
		if err != nil {
			t.Fatalf("unexpected error: %s", err)
		}
		if got, want := *d.View(), (cfgT{Token: "s3cr3t"}); got != want {
			t.Fatalf("got %+v, want %+v", got, want)
		}
	})

	t.Run("other_variable_does_not_touch_the_leaf", func(t *testing.T) {
		os.Setenv("MY_APP_TOKEN", "not-for-this-field")
		defer os.Unsetenv("MY_APP_TOKEN")

		cfg := cfgT{}
		d, err := dials.Config(context.Background(), &cfg, &Source{})
		if err != nil {
			t.Fatalf("unexpected error: %s", err)
		}
		if got, want := *d.View(), (cfgT{}); got != want {
			t.Fatalf("got %+v, want %+v", got, want)
		}
	})
}

// place in: sources/env/
package env

import (
	"context"
	"strings"
	"testing"

	"github.com/vimeo/dials"
)

type seedC142Inner_r6c14_6 struct {
	// alias declared only for the env-specific tag
	Port int `dials:"port" dialsenv:"SEEDC142_PORT" dialsenvalias:"SEEDC142_LEGACY_PORT"`
}

type seedC142Config_r6c14_6 struct {
	// generic alias: honoured by every alias-capable source
	Name string `dials:"seedc142_name" dialsalias:"seedc142_title"`
	// env-specific alias next to a derived primary name
	Addr string `dials:"seedc142_addr" dialsenvalias:"SEEDC142_LEGACY_ADDR"`
	DB   seedC142Inner_r6c14_6
}

func seedC142Load_r6c14_6(t *testing.T, environ map[string]string) (*seedC142Config_r6c14_6, error) {
	t.Helper()
	for k, v := range environ {
		t.Setenv(k, v)
	}
	d, err := dials.Config(context.Background(), &seedC142Config_r6c14_6{}, &Source{})
	if err != nil {
		return nil, err
	}
	return d.View(), nil
}

func TestDemoSeedC14EnvSpecificAlias_r6c14_6(t *testing.T) {
	for _, tbl := range []struct {
		name     string
		environ  map[string]string
		expected seedC142Config_r6c14_6
		errField string // non-empty if an error naming this field is expected
	}{
		{
			name:     "neither",
			environ:  map[string]string{},
			expected: seedC142Config_r6c14_6{},
		},
		{
			name:     "generic_primary",
			environ:  map[string]string{"SEEDC142_NAME": "n"},
			expected: seedC142Config_r6c14_6{Name: "n"},
		},
		{
			name:     "generic_alias",
			environ:  map[string]string{"SEEDC142_TITLE": "t"},
			expected: seedC142Config_r6c14_6{Name: "t"},
		},
		{
			name:     "generic_both",
			environ:  map[string]string{"SEEDC142_NAME": "n", "SEEDC142_TITLE": "t"},
			errField: "Name",
		},
		{
			name:     "envalias_primary",
			environ:  map[string]string{"SEEDC142_ADDR": "a"},
			expected: seedC142Config_r6c14_6{Addr: "a"},
		},
		{
			name:     "envalias_alias",
			environ:  map[string]string{"SEEDC142_LEGACY_ADDR": "b"},
			expected: seedC142Config_r6c14_6{Addr: "b"},
		},
		{
			name:     "envalias_both",
			environ:  map[string]string{"SEEDC142_ADDR": "a", "SEEDC142_LEGACY_ADDR": "b"},
			errField: "Addr",
		},
		{
			name:     "nested_envalias_primary",
			environ:  map[string]string{"SEEDC142_PORT": "80"},
			expected: seedC142Config_r6c14_6{DB: seedC142Inner_r6c14_6{Port: 80}},
		},
		{
			name:     "nested_envalias_alias",
			environ:  map[string]string{"SEEDC142_LEGACY_PORT": "81"},
			expected: seedC142Config_r6c14_6{DB: seedC142Inner_r6c14_6{Port: 81}},
		},
		{
			name:     "nested_envalias_both",
			environ:  map[string]string{"SEEDC142_PORT": "80", "SEEDC142_LEGACY_PORT": "81"},
			errField: "Port",
		},
		{
			name:     "envalias_alias_with_other_fields",
			environ:  map[string]string{"SEEDC142_NAME": "n", "SEEDC142_LEGACY_ADDR": "b", "SEEDC142_LEGACY_PORT": "81"},
			expected: seedC142Config_r6c14_6{Name: "n", Addr: "b", DB: seedC142Inner_r6c14_6{Port: 81}},
		},
	} {
		tbl := tbl
		t.Run(tbl.name, func(t *testing.T) {
			cfg, err := seedC142Load_r6c14_6(t, tbl.environ)
			if tbl.errField != "" {
				if err == nil {
					t.Fatalf("expected an error naming %q; got config %+v", tbl.errField, *cfg)
				}
				if !strings.Contains(err.Error(), tbl.errField) {
					t.Errorf("error does not name field %q: %s", tbl.errField, err)
				}
				return
			}
			if err != nil {
				t.Fatalf("unexpected error: %s", err)
			}
			if *cfg != tbl.expected {
				t.Errorf("unexpected config:\n got %+v\nwant %+v", *cfg, tbl.expected)
			}
		})
	}
}

// place in: sources/env/
package env

import (
	"context"
	"runtime/debug"
	"testing"

	"github.com/vimeo/dials"
)

// demoSeedC163Recover runs f and reports a panic (with its stack) instead of
// letting it propagate.
func demoSeedC163Recover_r5c16_6(f func() error) (err error, panicked interface{}, stack string) {
	defer func() {
		if r := recover(); r != nil {
			panicked = r
			stack = string(debug.Stack())
		}
	}()
	return f(), nil, ""
}

// A config struct that embeds user-defined named scalar types at its top
// level (all flattened leaf names distinct) must be loadable by the env source
// (value or error); the source must not panic.
//
// The types are declared locally (they cannot clash with other demo files)
// because an embedded field takes the name of its type and dials only looks at
// exported fields, so the type names have to be exported.
func TestDemoSeedC16_3_EnvTopLevelEmbeddedNamedScalar_r5c16_6(t *testing.T) {
	type Level int     // user-defined named scalar, embedded below
	type Region string // a second one
	type Embed struct {
		Port int
	}
	type config struct {
		Name string
		Embed
		Level
		Region
	}

	t.Setenv("DEMOSEEDC163_NAME", "n")
	t.Setenv("DEMOSEEDC163_PORT", "8080")
	t.Setenv("DEMOSEEDC163_LEVEL", "7")
	t.Setenv("DEMOSEEDC163_REGION", "eu")

	var got *config
	err, panicked, stack := demoSeedC163Recover_r5c16_6(func() error {
		c := config{}
		d, cfgErr := dials.Config(context.Background(), &c, &Source{Prefix: "DEMOSEEDC163"})
		if cfgErr != nil {
			return cfgErr
		}
		got = d.View()
		return nil
	})
	if panicked != nil {
		t.Fatalf("env source panicked: %v\n%s", panicked, stack)
	}
	if err != nil {
		t.Logf("error (acceptable for the property): %v", err)
		return
	}
	t.Logf("config: %+v", *got)
	want := config{Name: "n", Embed: Embed{Port: 8080}, Level: 7, Region: "eu"}
	if *got != want {
		t.Errorf("got %+v, want %+v", *got, want)
	}
}

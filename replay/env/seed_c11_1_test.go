// place in: sources/env/
package env

import (
	"context"
	"os"
	"testing"

	"github.com/vimeo/dials"
)

// With Prefix "APP", the field AppName is documented to be read from
// APP_APP_NAME (prefix + "_" + UPPER_SNAKE_CASE of the field name) and
// AppPort from APP_APP_PORT. A variable called APP_NAME names no field of this
// config at all, so it must not touch anything.
func TestDemoSeedC11PrefixSharedWithFieldName(t *testing.T) {
	type config struct {
		AppName string
		AppPort int
		Other   string
	}

	t.Run("unrelated_variable_leaves_fields_unset", func(t *testing.T) {
		os.Setenv("APP_NAME", "intruder")
		defer os.Unsetenv("APP_NAME")

		cfg := config{AppName: "default-name", AppPort: 80, Other: "o"}
		d, err := dials.Config(context.Background(), &cfg, &Source{Prefix: "APP"})
		if err != nil {
			t.Fatalf("unexpected error: %s", err)
		}
		got := *d.View()
		want := config{AppName: "default-name", AppPort: 80, Other: "o"}
		if got != want {
			t.Errorf("APP_NAME is not the variable of any field; got %+v, want %+v", got, want)
		}
	})

	t.Run("documented_variable_sets_field", func(t *testing.T) {
		os.Setenv("APP_APP_NAME", "real")
		os.Setenv("APP_APP_PORT", "8080")
		os.Setenv("APP_OTHER", "x")
		defer os.Unsetenv("APP_APP_NAME")
		defer os.Unsetenv("APP_APP_PORT")
		defer os.Unsetenv("APP_OTHER")

		cfg := config{AppName: "default-name", AppPort: 80, Other: "o"}
		d, err := dials.Config(context.Background(), &cfg, &Source{Prefix: "APP"})
		if err != nil {
			t.Fatalf("unexpected error: %s", err)
		}
		got := *d.View()
		want := config{AppName: "real", AppPort: 8080, Other: "x"}
		if got != want {
			t.Errorf("got %+v, want %+v", got, want)
		}
	})
}

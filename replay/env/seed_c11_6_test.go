// place in: sources/env/
package env

import (
	"context"
	"os"
	"testing"

	"github.com/vimeo/dials"
)

// A list value in which two items are not separated by a comma is not
// parsable; it must be reported, not silently cut down to the first item of
// each comma-separated position.
func TestDemoSeedUnparsableListIsAnError(t *testing.T) {
	t.Run("string_slice", func(t *testing.T) {
		os.Setenv("HOSTS", `"a.example" "b.example",c.example`)
		defer os.Unsetenv("HOSTS")

		cfg := struct{ Hosts []string }{}
		d, err := dials.Config(context.Background(), &cfg, &Source{})
		if err == nil {
			t.Fatalf("expected an error for HOSTS=`\"a.example\" \"b.example\",c.example`, got value %q", d.View().Hosts)
		}
	})
	t.Run("int_slice_quoted_items", func(t *testing.T) {
		os.Setenv("PORTS", `"80" "443","8080"`)
		defer os.Unsetenv("PORTS")

		cfg := struct{ Ports []int }{}
		d, err := dials.Config(context.Background(), &cfg, &Source{})
		if err == nil {
			t.Fatalf("expected an error for PORTS=`\"80\" \"443\",\"8080\"`, got value %v", d.View().Ports)
		}
	})
}

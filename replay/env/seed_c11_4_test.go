// place in: sources/env/
package env

import (
	"context"
	"os"
	"testing"

	"github.com/vimeo/dials"
)

// Two variables are present with different values; each leaf must get the
// value of its own variable.
func TestDemoSeedTwoVarsKeepTheirOwnValues(t *testing.T) {
	type cfgT struct {
		Host string
		Port int
		Name string
	}
	os.Setenv("HOST", "example.org")
	defer os.Unsetenv("HOST")
	os.Setenv("PORT", "8080")
	defer os.Unsetenv("PORT")

	cfg := cfgT{}
	d, err := dials.Config(context.Background(), &cfg, &Source{})
	if err != nil {
		t.Fatalf("unexpected error: %s", err)
	}
	got := *d.View()
	want := cfgT{Host: "example.org", Port: 8080, Name: ""}
	if got != want {
		t.Fatalf("got %+v, want %+v", got, want)
	}
}

// place in: sources/env/
package env

import (
	"context"
	"os"
	"testing"

	"github.com/vimeo/dials"
)

// An out-of-range value for a narrow signed integer leaf must be reported as
// an error, never silently wrapped around, on both ends of the range.
func TestDemoSeedC11NegativeOutOfRange(t *testing.T) {
	type config struct {
		Level  int8
		Offset int16
		Delta  int32
		Deltas []int8
	}

	for name, tc := range map[string]struct{ envVar, val string }{
		"int8_below_min":       {"LEVEL", "-129"},
		"int16_below_min":      {"OFFSET", "-40000"},
		"int32_below_min":      {"DELTA", "-2147483649"},
		"int8_slice_below_min": {"DELTAS", "1,-200"},
		"int8_above_max":       {"LEVEL", "128"},
	} {
		t.Run(name, func(t *testing.T) {
			os.Setenv(tc.envVar, tc.val)
			defer os.Unsetenv(tc.envVar)

			cfg := config{}
			d, err := dials.Config(context.Background(), &cfg, &Source{})
			if err == nil {
				t.Fatalf("%s=%s is out of range: expected an error, got config %+v", tc.envVar, tc.val, *d.View())
			}
		})
	}

	// in-range extremes still parse exactly
	os.Setenv("LEVEL", "-128")
	os.Setenv("OFFSET", "32767")
	defer os.Unsetenv("LEVEL")
	defer os.Unsetenv("OFFSET")
	cfg := config{}
	d, err := dials.Config(context.Background(), &cfg, &Source{})
	if err != nil {
		t.Fatalf("unexpected error: %s", err)
	}
	if got := d.View(); got.Level != -128 || got.Offset != 32767 {
		t.Errorf("got %+v, want Level=-128 Offset=32767", *got)
	}
}

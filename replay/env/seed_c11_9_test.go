// place in: sources/env/
package env

import (
	"context"
	"os"
	"reflect"
	"testing"
	"time"

	"github.com/vimeo/dials"
)

type seedC113Limits_r7c11_9 struct {
	Quotas   map[string]int
	Features map[string]bool
	Backoff  map[string]time.Duration
	Ratios   map[int]float64
}

type seedC113Config_r7c11_9 struct {
	Name   string
	Limits seedC113Limits_r7c11_9
}

func seedC113Setenv_r7c11_9(t *testing.T, k, v string) {
	t.Helper()
	if err := os.Setenv(k, v); err != nil {
		t.Fatalf("setenv %s: %s", k, err)
	}
	t.Cleanup(func() { os.Unsetenv(k) })
}

// TestSeedC11MapUnparsableValueIsError: an entry of a typed map whose value
// is missing/empty cannot be parsed as int/bool/duration/float and so must be
// reported as an error, never silently turned into a zero value.
func TestDemoSeedC11MapUnparsableValueIsError_r7c11_9(t *testing.T) {
	for name, tc := range map[string]struct{ envVar, value string }{
		"int_bare_key":           {"LIMITS_QUOTAS", "read:10,write"},
		"int_empty_after_colon":  {"LIMITS_QUOTAS", "read:10,write:,exec:3"},
		"int_quoted_empty":       {"LIMITS_QUOTAS", `"read":""`},
		"bool_bare_key":          {"LIMITS_FEATURES", "fast:true,safe"},
		"duration_empty_value":   {"LIMITS_BACKOFF", "dial:3s,read:"},
		"float_intkey_empty_val": {"LIMITS_RATIOS", "1:0.5,2:"},
	} {
		tc := tc
		t.Run(name, func(t *testing.T) {
			seedC113Setenv_r7c11_9(t, tc.envVar, tc.value)
			cfg := seedC113Config_r7c11_9{}
			d, err := dials.Config(context.Background(), &cfg, &Source{})
			if err == nil {
				t.Errorf("%s=%q: expected a parse error, got config %+v", tc.envVar, tc.value, *d.View())
			}
		})
	}
}

// TestSeedC11MapWellFormedControl checks that well-formed typed maps (and
// string maps with bare keys) still parse to exactly their contents.
func TestDemoSeedC11MapWellFormedControl_r7c11_9(t *testing.T) {
	seedC113Setenv_r7c11_9(t, "LIMITS_QUOTAS", "read:10,write:0,exec:-3")
	seedC113Setenv_r7c11_9(t, "LIMITS_BACKOFF", `dial:3s,"read":1m`)
	cfg := seedC113Config_r7c11_9{Name: "n"}
	d, err := dials.Config(context.Background(), &cfg, &Source{})
	if err != nil {
		t.Fatalf("unexpected error: %s", err)
	}
	want := &seedC113Config_r7c11_9{
		Name: "n",
		Limits: seedC113Limits_r7c11_9{
			Quotas:  map[string]int{"read": 10, "write": 0, "exec": -3},
			Backoff: map[string]time.Duration{"dial": 3 * time.Second, "read": time.Minute},
		},
	}
	if got := d.View(); !reflect.DeepEqual(got, want) {
		t.Errorf("unexpected config:\n got  %+v\n want %+v", *got, *want)
	}
}

// place in: sources/env/
package env

import (
	"context"
	"os"
	"reflect"
	"testing"

	"github.com/vimeo/dials"
)

type seedC112API_r7c11_8 struct {
	AllowedURLs []string
	Timeout     int
}

type seedC112Config_r7c11_8 struct {
	UserIDs []int
	API     seedC112API_r7c11_8
	Name    string
}

func seedC112Setenv_r7c11_8(t *testing.T, k, v string) {
	t.Helper()
	if err := os.Setenv(k, v); err != nil {
		t.Fatalf("setenv %s: %s", k, err)
	}
	t.Cleanup(func() { os.Unsetenv(k) })
}

// TestSeedC11PluralInitialismNames: field names ending in a pluralised
// initialism (UserIDs, AllowedURLs) are documented to map to the
// UPPER_SNAKE_CASE join of their words: USER_IDS and API_ALLOWED_URLS.
func TestDemoSeedC11PluralInitialismNames_r7c11_8(t *testing.T) {
	for _, prefix := range []string{"", "SEEDC112P"} {
		prefix := prefix
		t.Run("prefix="+prefix, func(t *testing.T) {
			p := ""
			if prefix != "" {
				p = prefix + "_"
			}
			seedC112Setenv_r7c11_8(t, p+"USER_IDS", "3,5,8")
			seedC112Setenv_r7c11_8(t, p+"API_ALLOWED_URLS", `"http://a/","http://b/?q=1,2"`)
			seedC112Setenv_r7c11_8(t, p+"API_TIMEOUT", "12")
			// variables that do not correspond to any documented name and
			// must therefore be ignored
			seedC112Setenv_r7c11_8(t, p+"USER_I_DS", "99")
			seedC112Setenv_r7c11_8(t, p+"API_ALLOWED_UR_LS", "bogus")

			cfg := seedC112Config_r7c11_8{Name: "keep"}
			d, err := dials.Config(context.Background(), &cfg, &Source{Prefix: prefix})
			if err != nil {
				t.Fatalf("unexpected error: %s", err)
			}
			got := d.View()
			want := &seedC112Config_r7c11_8{
				UserIDs: []int{3, 5, 8},
				API: seedC112API_r7c11_8{
					AllowedURLs: []string{"http://a/", "http://b/?q=1,2"},
					Timeout:     12,
				},
				Name: "keep",
			}
			if !reflect.DeepEqual(got, want) {
				t.Errorf("unexpected config:\n got  %+v\n want %+v", *got, *want)
			}
		})
	}
}

// place in: sources/env/
package env

import (
	"context"
	"os"
	"reflect"
	"testing"

	"github.com/vimeo/dials"
)

// A leaf that precedes an (unset) nested struct inside its parent struct must
// still be set from its documented variable.
func TestDemoSeedC11LeafBeforeUnsetNestedStruct(t *testing.T) {
	type TLS struct {
		Cert string
		Key  string
	}
	type Server struct {
		Host string
		Port int
		TLS  *TLS
	}
	type config struct {
		Name   string
		Server Server
	}

	t.Run("sibling_nested_struct_unset", func(t *testing.T) {
		os.Setenv("SERVER_HOST", "example.com")
		os.Setenv("SERVER_PORT", "8443")
		defer os.Unsetenv("SERVER_HOST")
		defer os.Unsetenv("SERVER_PORT")

		cfg := config{Name: "n", Server: Server{Host: "localhost", Port: 80}}
		d, err := dials.Config(context.Background(), &cfg, &Source{})
		if err != nil {
			t.Fatalf("unexpected error: %s", err)
		}
		got := *d.View()
		want := config{Name: "n", Server: Server{Host: "example.com", Port: 8443}}
		if !reflect.DeepEqual(got, want) {
			t.Errorf("SERVER_HOST and SERVER_PORT are set; got %+v, want %+v", got, want)
		}
	})

	t.Run("sibling_nested_struct_set", func(t *testing.T) {
		os.Setenv("SERVER_HOST", "example.com")
		os.Setenv("SERVER_TLS_KEY", "k")
		defer os.Unsetenv("SERVER_HOST")
		defer os.Unsetenv("SERVER_TLS_KEY")

		cfg := config{Name: "n", Server: Server{Host: "localhost", Port: 80}}
		d, err := dials.Config(context.Background(), &cfg, &Source{})
		if err != nil {
			t.Fatalf("unexpected error: %s", err)
		}
		got := *d.View()
		want := config{Name: "n", Server: Server{Host: "example.com", Port: 80, TLS: &TLS{Key: "k"}}}
		if !reflect.DeepEqual(got, want) {
			t.Errorf("got %+v (TLS %+v), want %+v", got, got.Server.TLS, want)
		}
	})
}

// place in: sources/env/
package env

import (
	"context"
	"os"
	"reflect"
	"testing"

	"github.com/vimeo/dials"
	"github.com/vimeo/dials/ptrify"
)

type seedC111Inner_r7c11_7 struct {
	Banner string
	Count  int
}

type seedC111Config_r7c11_7 struct {
	Separator string
	Indent    string `dialsenv:"SEEDC111_INDENT"`
	Inner     seedC111Inner_r7c11_7
	Other     string
}

func seedC111Setenv_r7c11_7(t *testing.T, k, v string) {
	t.Helper()
	if err := os.Setenv(k, v); err != nil {
		t.Fatalf("setenv %s: %s", k, err)
	}
	t.Cleanup(func() { os.Unsetenv(k) })
}

// TestSeedC11ExactStringValues checks that string leaves receive exactly the
// contents of their environment variables, including leading/trailing
// whitespace, and that leaves without a variable stay unset.
func TestDemoSeedC11ExactStringValues_r7c11_7(t *testing.T) {
	want := map[string]string{
		"SEEDC111P_SEPARATOR":       "\t",
		"SEEDC111P_SEEDC111_INDENT": "    ",
		"SEEDC111P_INNER_BANNER":    "  hello, \"world\"  \n",
		"SEEDC111P_INNER_COUNT":     "17",
	}
	for k, v := range want {
		seedC111Setenv_r7c11_7(t, k, v)
	}
	os.Unsetenv("SEEDC111P_OTHER")

	cfg := seedC111Config_r7c11_7{}
	typ := dials.NewType(ptrify.Pointerify(reflect.TypeOf(cfg), reflect.ValueOf(cfg)))
	src := &Source{Prefix: "SEEDC111P"}
	val, err := src.Value(context.Background(), typ)
	if err != nil {
		t.Fatalf("unexpected error from Value: %s", err)
	}

	getStr := func(v reflect.Value, name string) *string {
		f := v.FieldByName(name)
		if f.IsNil() {
			return nil
		}
		s := f.Elem().String()
		return &s
	}

	check := func(name string, got *string, exp string) {
		t.Helper()
		if got == nil {
			t.Errorf("%s: leaf unset; expected %q", name, exp)
			return
		}
		if *got != exp {
			t.Errorf("%s: got %q; expected exactly %q", name, *got, exp)
		}
	}
	check("Separator", getStr(val, "Separator"), "\t")
	check("Indent", getStr(val, "Indent"), "    ")
	if o := getStr(val, "Other"); o != nil {
		t.Errorf("Other: expected unset, got %q", *o)
	}
	inner := val.FieldByName("Inner")
	if inner.IsNil() {
		t.Fatalf("Inner unset")
	}
	check("Inner.Banner", getStr(inner.Elem(), "Banner"), "  hello, \"world\"  \n")
	cnt := inner.Elem().FieldByName("Count")
	if cnt.IsNil() || cnt.Elem().Int() != 17 {
		t.Errorf("Inner.Count: expected 17, got %v", cnt)
	}
}

// TestSeedC11ExactStringValuesViaConfig does the same through dials.Config
// with a default that must be overridden by a whitespace-only value.
func TestDemoSeedC11ExactStringValuesViaConfig_r7c11_7(t *testing.T) {
	seedC111Setenv_r7c11_7(t, "SEPARATOR", " ")
	cfg := seedC111Config_r7c11_7{Separator: ","}
	d, err := dials.Config(context.Background(), &cfg, &Source{})
	if err != nil {
		t.Fatalf("unexpected error: %s", err)
	}
	if got := d.View().Separator; got != " " {
		t.Errorf("Separator: got %q; expected exactly %q", got, " ")
	}
}

#!/usr/bin/env python3
"""seed_meta.py <seed-id> <round-word> <check_result text>  - writes /verif/seeded/<id>/meta.json from notes.txt"""
import json, os, sys
sid, rnd, result = sys.argv[1], sys.argv[2], sys.argv[3]
d = os.path.join('/verif/seeded', sid)
notes = open(os.path.join(d, 'notes.txt')).read()
dd = open(os.path.join(d, '.demodir')).read().strip() if os.path.exists(os.path.join(d, '.demodir')) else '.'
meta = {
    "property": sid.split('-')[0],
    "origin": "independent sub-agent (%s round) given only the property text and a scratch worktree without the contract files" % rnd,
    "demo_test_dir": dd,
    "what_it_needs_and_what_the_author_ran": notes,
    "confirmed_by_me": "/verif/seedtest.sh: patch applies, go build ok, full suite passes with the change, demo fails with the change and passes without (scratch worktree), then the checks were run on /repo with the patch applied and reverted",
    "check_result": result,
}
json.dump(meta, open(os.path.join(d, 'meta.json'), 'w'), indent=1)
print("wrote", os.path.join(d, 'meta.json'))

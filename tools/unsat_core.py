#!/usr/bin/env python3
# usage: unsat_core.py file.smt2  -- names every assertion of a VC file and prints z3's unsat core
# (development aid for tracking down contradictory assumptions reported by the vacuity probes).
import subprocess,re,sys
src=open(sys.argv[1]).read()
def sexps(s):
    out=[];depth=0;start=None;i=0;instr=False;bar=False
    while i<len(s):
        ch=s[i]
        if bar:
            if ch=='|': bar=False
        elif instr:
            if ch=='"': instr=False
        elif ch=='|': bar=True
        elif ch=='"': instr=True
        elif ch==';':
            while i<len(s) and s[i]!='\n': i+=1
        elif ch=='(':
            if depth==0: start=i
            depth+=1
        elif ch==')':
            depth-=1
            if depth==0: out.append(s[start:i+1])
        i+=1
    return out
res=['(set-option :produce-unsat-cores true)'];n=0;names={}
for e in sexps(src):
    if e.startswith('(assert '):
        n+=1;nm='a%d'%n;names[nm]=e;res.append('(assert (! %s :named %s))'%(e[8:-1],nm))
    elif e.startswith('(check-sat') or e.startswith('(get-'): pass
    else: res.append(e)
res+=['(check-sat)','(get-unsat-core)']
open('/tmp/_core.smt2','w').write('\n'.join(res))
r=subprocess.run(['z3-new','-T:%s'%(sys.argv[2] if len(sys.argv)>2 else '60'),'/tmp/_core.smt2'],capture_output=True,text=True).stdout
print(r.split('\n')[0])
for c in re.findall(r'a\d+',r.split('\n',1)[1] if '\n' in r else ''):
    print(c,names[c][:600]);print()

#!/bin/bash
# Runs every replay battery on /repo's working tree (injected with go test -overlay, nothing is written to /repo).
# On the unchanged tree everything must pass except the tests that demonstrate the known findings.
export GOFLAGS=-mod=mod GOPROXY=off GOSUMDB=off GOTOOLCHAIN=local
declare -A dirs=( [dials]=. [parse]=parse [sourcewrap]=sourcewrap [ez]=ez [env]=sources/env [caseconversion]=tagformat/caseconversion [tagformat]=tagformat [transform]=transform [json]=decoders/json [flag]=sources/flag [pflag]=sources/pflag [flaghelper]=sources/flag/flaghelper )
tmp=$(mktemp -d); rc=0
for b in "${!dirs[@]}"; do
  d=${dirs[$b]}
  python3 - "$b" "$d" "$tmp" <<'PY'
import json,glob,sys,os
b,d,tmp=sys.argv[1:4]
rep={}
for f in glob.glob(f'/verif/replay/{b}/*_test.go'):
    rep[os.path.normpath(f'/repo/{d}/zz_'+os.path.basename(f))]=f
json.dump({"Replace":rep},open(f'{tmp}/{b}.json','w'))
PY
  out=$(cd /repo && go test -overlay $tmp/$b.json -vet=off -count=1 -timeout 600s -run 'Replay|Demo' -skip 'TestReplay_C08_RegisterAfterDone|TestReplay_C03_SelfContainingSlice|TestReplay_C03_SharedPointerIntoArray' ./$d 2>&1 | grep -E "^(--- FAIL|ok|FAIL|panic:|fatal)" | head -5)
  echo "$b: $out"
  echo "$out" | grep -q "^ok" || rc=1
done
rm -rf $tmp
exit $rc

#!/usr/bin/env python3
# Regenerates the status table (DESIGN.md §12.1) and the findings table (§12.4) from MANIFEST.json,
# evidence/*.json and known_findings.json, between HTML comment markers.
import json,re,os
m=json.load(open('/verif/MANIFEST.json'))
rows=["| property | claim | functions / lemmas / tables under contract (proved) | obligations | known findings |","|---|---|---|---|---|"]
for c in sorted(m['checks'],key=lambda c:c['property_id']):
    pid=c['property_id']
    ev='/verif/evidence/%s.json'%pid
    n=fu=kf='?'
    if os.path.exists(ev):
        e=json.load(open(ev))['coverage']; n=e['obligations']; fu=len(e['functions_under_contract']); kf=e['known_finding_obligations']
    partial='partial' if c['level_note'].lower().startswith('partial') else 'as stated in the level text'
    rows.append(f"| {pid} | proof, {partial} | {fu} | {n} | {kf} |")
for na in m['not_applicable']:
    rows.append(f"| {na['property_id']} | not applicable | – | – | – |")
tab="\n".join(rows)
k=json.load(open('/verif/known_findings.json'))
frows=["| status | property | obligation | what failed |","|---|---|---|---|"]
for e in k:
    st=e['status']+(' '+e.get('commit','') if e['status']=='fixed' else '')
    what=e['what'].replace('|','/')
    what=re.sub(r'^fixed: property=\S+ \S+ ','',what)
    frows.append(f"| {st} | {e['property']} | `{e['obligation']}` | {what} |")
ftab="\n".join(frows)
p='/verif/DESIGN.md'; s=open(p).read()
for b,e,t in [('<!-- status-table-begin -->','<!-- status-table-end -->',tab),('<!-- findings-table-begin -->','<!-- findings-table-end -->',ftab)]:
    if b in s: s=s[:s.index(b)+len(b)]+"\n"+t+"\n"+s[s.index(e):]
open(p,'w').write(s)

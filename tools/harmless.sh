#!/bin/bash
# False-alarm corpus: applies each behaviour-preserving edit of /verif/harmless/*.diff to /repo (which must be
# clean), runs the checks whose packages contain the edited file, and restores /repo.  Every check must exit 0.
export GOFLAGS=-mod=mod GOPROXY=off GOSUMDB=off GOTOOLCHAIN=local
cd /repo; [ -n "$(git status --porcelain)" ] && { echo "REFUSING: /repo dirty"; exit 4; }
rc=0
for h in /verif/harmless/*.diff; do
  n=$(basename $h .diff); f=$(grep -m1 "^+++ b/" $h | sed 's|+++ b/||')
  case $f in
    overlay.go) props="C01 C02 C16";; dials.go) props="C04 C05 C07 C08 C09 C01";; deep_copy.go) props="C02 C03 C16";;
    sources/env/*) props="C11 C14 C16";; transform/flatten*) props="C10 C11 C16";; parse/*) props="C15 C16";;
    cb_mgr.go) props="C06 C08 C04 C09";; tagformat/caseconversion/*) props="C19 C16";; transform/*) props="C10 C16";; sourcewrap/*) props="C07 C20 C08";; *) props="C16";;
  esac
  git apply $h || { echo "$n: PATCH DOES NOT APPLY"; rc=1; continue; }
  for p in $props; do
    out=$(cd /verif && /verif/bin/govc check $p quick 2>&1 | grep -E "VIOLATION|ERROR|^$p quick")
    if echo "$out" | grep -qE "VIOLATION|ERROR"; then echo "$n $p: FALSE ALARM"; echo "$out" | cut -c1-220 | head -4; rc=1; else echo "$n $p: quiet"; fi
  done
  git checkout -- .
done
exit $rc

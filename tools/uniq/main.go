// uniq: prints a Go test file with every file-scope identifier it declares (and every use of it in the
// file) suffixed, so that several independently written demonstration files can share one test package.
// usage: go run . <file.go> <suffix>
package main

import (
	"fmt"
	"go/ast"
	"go/format"
	"go/parser"
	"go/token"
	"os"
)

func main() {
	fset := token.NewFileSet()
	f, err := parser.ParseFile(fset, os.Args[1], nil, parser.ParseComments)
	if err != nil {
		fmt.Fprintln(os.Stderr, err)
		os.Exit(1)
	}
	suffix := os.Args[2]
	objs := map[*ast.Object]bool{}
	for _, d := range f.Decls {
		switch d := d.(type) {
		case *ast.FuncDecl:
			if d.Recv == nil && d.Name.Obj != nil && d.Name.Name != "init" {
				objs[d.Name.Obj] = true
			}
		case *ast.GenDecl:
			for _, s := range d.Specs {
				switch s := s.(type) {
				case *ast.TypeSpec:
					objs[s.Name.Obj] = true
				case *ast.ValueSpec:
					for _, n := range s.Names {
						if n.Name != "_" {
							objs[n.Obj] = true
						}
					}
				}
			}
		}
	}
	ast.Inspect(f, func(n ast.Node) bool {
		if id, ok := n.(*ast.Ident); ok && id.Obj != nil && objs[id.Obj] {
			id.Name += suffix
		}
		return true
	})
	format.Node(os.Stdout, fset, f)
}

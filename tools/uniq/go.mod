module uniq

go 1.21
